#!/bin/bash
# seed3.sh <ID> [suffix=c] [srcroot=/tmp/seed-out3]: confirm a later-round seed as /verif/seeded/<ID><suffix> (no check run)
ID=$1; SUF=${2:-c}; ROOT=${3:-/tmp/seed-out3}
cd /verif
./scripts/confirm_seed.sh $ID $ROOT/$ID ${ID}$SUF 2>&1 | grep -E "suite-|demo-|CONFIRMED|FAILED|APPLY|BUILD"
git -C /repo worktree remove --force /tmp/confirm-${ID}$SUF 2>/dev/null
