#!/bin/bash
# Offline build of the framework (MANIFEST.setup_cmd). Warms the build cache for both binaries.
set -e
. "$(dirname "$0")/env.sh"
build_vcheck race
"$VERIF_DIR/bin/vcheck" list
pkill -x dbus-daemon 2>/dev/null || true
