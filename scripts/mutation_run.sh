#!/bin/bash
# mutation_run.sh <per-file sample size> [seed]: classic mutation operators (bin/mutgen) applied to the
# files that carry the properties, each mutant built and judged by the quick checks of the
# properties that file serves. Works on scratch copies only: VERIF_DIR, VERIF_REPO as in
# seed_matrix.sh. Appends to $VERIF_DIR/out/mutation/results.tsv:
#   file  index  line  kind  description  verdict(CAUGHT <check> <rule>|SURVIVED|INVALID)
N=${1:-15}; SEED=${2:-1}
export VERIF_DIR=${VERIF_DIR:?}; export VERIF_REPO=${VERIF_REPO:?}
cd $VERIF_REPO || exit 3
[ -n "$(git status --porcelain)" ] && { echo "$VERIF_REPO not clean"; exit 3; }
mkdir -p $VERIF_DIR/out/mutation; RES=$VERIF_DIR/out/mutation/results.tsv
(cd $VERIF_DIR/harness && . ../scripts/env.sh && prep_mod && go build $MODFILE -o $VERIF_DIR/bin/mutgen ./cmd/mutgen) || exit 3
while read file checks; do
  [ -z "$file" ] && continue
  $VERIF_DIR/bin/mutgen list $file | grep -v "negate if condition" | grep -vi "telemetry\|EmitEvent\|Logger\|defer " > /tmp/mut.sites.$$
  # "negate" only for conditions that are not plain error checks
  $VERIF_DIR/bin/mutgen list $file | grep "negate if condition" > /tmp/mut.neg.$$
  python3 - $file /tmp/mut.sites.$$ /tmp/mut.neg.$$ $N $SEED <<'PY' > /tmp/mut.pick.$$
import sys,random
f,sites,neg,n,seed=sys.argv[1],sys.argv[2],sys.argv[3],int(sys.argv[4]),int(sys.argv[5])
src=open(f).read().split('\n')
L=[l.rstrip('\n') for l in open(sites)]
for l in open(neg):
    ln=int(l.split()[1])
    if 'err' in src[ln-1] and 'nil' in src[ln-1]: continue
    L.append(l.rstrip('\n'))
random.Random(seed*7919+hash(f)%1000).shuffle(L)
for l in L[:n]: print(l)
PY
  while read idx line kind desc; do
    if grep -q "^$file	$idx	" $RES 2>/dev/null; then continue; fi
    $VERIF_DIR/bin/mutgen apply $file $idx > /tmp/mut.src.$$ && cp /tmp/mut.src.$$ $file
    verdict="SURVIVED"
    if ! (cd $VERIF_DIR/harness && . ../scripts/env.sh && prep_mod && go build $MODFILE -tags verif -o /dev/null ./cmd/vcheck) 2>/dev/null; then
      verdict="INVALID"
    else
      for chk in $checks; do
        res=$(cd $VERIF_DIR && timeout 1500 ./scripts/check.sh $chk quick 2>&1)
        if echo "$res" | grep -q "^VIOLATION"; then
          rule=$(echo "$res" | grep -E "^  rule=" | head -1 | sed -E 's/^  rule=([^ ]+) sig=([^ ]+).*/\1 \/ \2/')
          verdict="CAUGHT $chk $rule"; break
        fi
        if echo "$res" | grep -q "inconclusive"; then verdict="SURVIVED(inconclusive $chk)"; fi
      done
    fi
    printf "%s\t%s\t%s\t%s\t%s\t%s\n" "$file" "$idx" "$line" "$kind" "$desc" "$verdict" >> $RES
    echo "$file:$line [$kind] $desc => $verdict"
    git checkout -q -- $file
  done < /tmp/mut.pick.$$
done <<'LIST'
x/stream/keeper/stream.go C11 C10 C12
x/stream/types/utils.go C11 C12
x/stream/keeper/msg_server.go C10 C13
x/enterprise/keeper/blocker.go C03 C02
x/enterprise/keeper/purchase.go C03 C20
x/enterprise/keeper/msg_server.go C03 C13
x/enterprise/keeper/locked.go C04 C05 C17
x/enterprise/ante/ante.go C05 C04
x/wrkchain/keeper/record.go C08 C07
x/beacon/keeper/record.go C08 C07
x/wrkchain/keeper/msg_server.go C08 C09
x/beacon/keeper/msg_server.go C08 C09
x/wrkchain/keeper/register.go C09 C08
x/wrkchain/ante/ante.go C06 C08
x/beacon/ante/ante.go C06 C08
x/enterprise/keeper/grpc_query.go C20 C17
x/stream/keeper/query_streams.go C20 C18
x/enterprise/types/params.go C16
x/wrkchain/types/params.go C16
x/stream/types/keys.go C18 C20
x/enterprise/genesis.go C15
x/wrkchain/genesis.go C15
x/stream/keeper/genesis.go C15
x/stream/types/msgs.go C13 C12
x/wrkchain/types/msgs.go C13 C07
LIST
rm -f /tmp/mut.*.$$
