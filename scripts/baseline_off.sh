#!/bin/bash
# Runs the repository's pinned suite with the verif guard OFF, without touching /repo/go.mod
# (a plain -mod=mod inside /repo rewrites it): -modfile points at a scratch copy.
. "$(dirname "$0")/env.sh"
T=$(mktemp -d $VERIF_SCRATCH/verif-base-XXXXXX)
cp /repo/go.mod "$T/go.mod"; cp /repo/go.sum "$T/go.sum"
cd /repo && go test -modfile="$T/go.mod" -json -vet=off -count=1 -timeout 25m ./... > "$T/out.json" 2> "$T/err.txt"
rc=$?
python3 - "$T/out.json" <<'PY'
import json,sys
p=f=0
fails=[]
for l in open(sys.argv[1]):
    try: e=json.loads(l)
    except: continue
    if e.get('Test') and e.get('Action') in('pass','fail'):
        if e['Action']=='pass': p+=1
        else:
            f+=1; fails.append(e['Package']+'::'+e['Test'])
print(f"baseline (guard off): passed={p} failed={f}")
for x in fails[:20]: print("FAIL",x)
PY
tail -5 "$T/err.txt"
rm -rf "$T"; pkill -x dbus-daemon 2>/dev/null
exit $rc
