#!/bin/bash
# revert_matrix.sh [tier]: for every "fix:" commit of the repository, revert it alone on a scratch copy
# and run the check of the property it repaired: the violation must come back (section 11 of
# DESIGN.md). Uses $VERIF_REPO (a scratch worktree of /repo, clean) and $VERIF_DIR like seed_matrix.sh.
TIER=${1:-quick}
export VERIF_DIR=${VERIF_DIR:-/verif}
export VERIF_REPO=${VERIF_REPO:?set VERIF_REPO to a scratch worktree of /repo}
cd $VERIF_REPO || exit 3
[ -n "$(git status --porcelain)" ] && { echo "$VERIF_REPO not clean"; exit 3; }
OUT=$VERIF_DIR/seeded/REVERTS.md
echo "| fix commit | property | subject | result | first rule/sig |" > $OUT
echo "|---|---|---|---|---|" >> $OUT
python3 - "$VERIF_DIR/known_findings.json" <<'PY' > /tmp/revert_list.$$
import json,sys,re
for f in json.load(open(sys.argv[1]))["fixed"]:
    m=re.match(r"fixed: property=(C\d+) ([0-9a-f]+) ",f)
    if m: print(m.group(2), m.group(1))
PY
while read commit prop; do
  subj=$(git log -1 --format=%s $commit | cut -c1-90)
  if ! git revert -n $commit >/dev/null 2>&1; then
    git revert --abort 2>/dev/null; git reset -q --hard; git clean -fdq
    echo "| $commit | $prop | $subj | REVERT CONFLICTS (later fixes touch the same lines) | |" >> $OUT
    echo "$commit [$prop] conflict"; continue
  fi
  git reset -q
  res=$(cd $VERIF_DIR && ./scripts/check.sh $prop $TIER 2>&1)
  rule=$(echo "$res" | grep -E "^  rule=" | head -1 | sed -E 's/^  rule=([^ ]+) sig=([^ ]+).*/\1 \/ \2/')
  if echo "$res" | grep -q "^VIOLATION"; then r="VIOLATION BACK"; else r="silent"; fi
  echo "| $commit | $prop | $subj | $r | $rule |" >> $OUT
  echo "$commit [$prop] $r $rule"
  git checkout -q -- . ; git clean -fdq x app ante types cmd 2>/dev/null
done < /tmp/revert_list.$$
rm -f /tmp/revert_list.$$
