#!/bin/bash
# seed2.sh <ID> : confirm a second-round seed (/tmp/seed-out2/<ID>) as /verif/seeded/<ID>b and run its check
ID=$1
cd /verif
./scripts/confirm_seed.sh $ID /tmp/seed-out2/$ID ${ID}b 2>&1 | grep -E "suite-|demo-|CONFIRMED|FAILED"
if [ -d /verif/seeded/${ID}b ]; then
  LINES_OUT=${LINES_OUT:-4} ./scripts/try_seed.sh /verif/seeded/${ID}b/patch.diff $ID ${@:2} 2>&1 | grep -v "^      \|^$\|KNOWN" | cut -c1-420
fi
git -C /repo worktree remove --force /tmp/seed2-$ID 2>/dev/null
