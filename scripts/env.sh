# sourced by every script
export GOFLAGS=-mod=mod GOPROXY=off GOSUMDB=off GOTOOLCHAIN=local GONOSUMCHECK=1 GONOSUMDB='*'
export DBUS_SESSION_BUS_ADDRESS=unix:path=/nonexistent
export VERIF_DIR=${VERIF_DIR:-/verif}
export VERIF_REPO=${VERIF_REPO:-/repo}
export VERIF_SCRATCH=${VERIF_SCRATCH:-/var/tmp}
H=$VERIF_DIR/harness
# Build the harness against $VERIF_REPO's current working tree (replace directive). go.sum is
# regenerated from the repository's own go.sum; `go` is never run with -mod=mod inside the repo.
prep_mod() {
  if [ "$VERIF_REPO" != "/repo" ]; then
    sed "s#=> /repo#=> $VERIF_REPO#" "$H/go.mod" > "$H/go.alt.mod"
    cat "$VERIF_REPO/go.sum" "$H/extra.sum" 2>/dev/null | sort -u > "$H/go.alt.sum"
    MODFILE="-modfile=$H/go.alt.mod"
  else
    cat "$VERIF_REPO/go.sum" "$H/extra.sum" 2>/dev/null | sort -u > "$H/go.sum"
    MODFILE=""
  fi
}
build_vcheck() { # $1 = "race" to also build the race binary
  prep_mod
  mkdir -p "$VERIF_DIR/bin"
  (cd "$H" && go build $MODFILE -tags verif -o "$VERIF_DIR/bin/vcheck" ./cmd/vcheck) || return 1
  if [ "$1" = race ]; then
    (cd "$H" && go build $MODFILE -race -tags verif -o "$VERIF_DIR/bin/vcheck-race" ./cmd/vcheck) || return 1
  fi
}
