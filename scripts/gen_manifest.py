#!/usr/bin/env python3
"""Regenerates /verif/MANIFEST.json from the table below (single source of truth)."""
import json, sys, os
V = os.path.dirname(os.path.dirname(os.path.abspath(__file__)))
props = [json.loads(l) for l in open(os.path.join(V, 'properties.jsonl'))]
ids = [p['id'] for p in props]

# id -> (category, technique, text, note, design_ref)
CHECKS = json.load(open(os.path.join(V, 'scripts', 'checks.json')))
NA = json.load(open(os.path.join(V, 'scripts', 'not_applicable.json')))

checks = []
for i in ids:
    if i not in CHECKS:
        continue
    c = CHECKS[i]
    checks.append({
        "property_id": i,
        "quick_cmd": f"./scripts/check.sh {i} quick",
        "thorough_cmd": f"./scripts/check.sh {i} thorough",
        "evidence_file": f"/verif/evidence/{i}.json",
        "replay_cmd_template": "./scripts/check.sh replay {path}",
        "engine": "vcheck",
        "level_claimed": {"category": c["category"], "text": c["text"], "design_ref": c.get("design_ref", "DESIGN.md section 3 " + i)},
        "level_note": c["note"],
        "technique": c["technique"],
    })
na = [{"property_id": i, "reason": NA[i]} for i in ids if i not in CHECKS]
for i in ids:
    assert (i in CHECKS) != (i in NA) or i in CHECKS, i
m = {
    "version": 1,
    "setup_cmd": "./scripts/setup.sh",
    "hooks": {
        "guard": "verif",
        "enable": "go build -tags verif (the harness module replaces github.com/unification-com/mainchain with /repo's working tree); no source hooks exist in /repo, every seam used is public",
        "baseline_off_cmd": "./scripts/baseline_off.sh",
        "source_commits": [],
        "add_only": True,
    },
    "engines": [{
        "name": "vcheck", "path": "/verif/harness",
        "serves_properties": [c["property_id"] for c in checks],
        "kind_free_text": "runtime monitoring: the real app.App driven through ABCI (signed txs, full ante chain) in worker processes; reference-model monitors, invariant checks at quiescent points, offline log checkers, Go race detector, crash-injecting DB wrapper",
    }],
    "checks": checks,
    "not_applicable": na,
    "notes": "Exit codes of every check: 0 held on everything explored, 1 violation (VIOLATION line + replay file), 2 inconclusive (worker died, watchdog, nothing relevant observed). VERIF_SEED selects the PRNG seed (default 1). Known findings: /verif/known_findings.json.",
}
json.dump(m, open(os.path.join(V, 'MANIFEST.json'), 'w'), indent=1)
print("checks:", [c["property_id"] for c in checks], "n/a:", [x["property_id"] for x in na])
