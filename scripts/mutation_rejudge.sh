#!/bin/bash
# mutation_rejudge.sh <results.tsv> : every SURVIVED mutant of a first pass is rebuilt and judged again
# with ALL checks related to its module (the first pass maps a file to its two or three main checks
# only). Appends to $VERIF_DIR/out/mutation/rejudged.tsv. VERIF_DIR / VERIF_REPO: scratch copies.
IN=$1
export VERIF_DIR=${VERIF_DIR:?}; export VERIF_REPO=${VERIF_REPO:?}
cd $VERIF_REPO || exit 3
[ -n "$(git status --porcelain)" ] && { echo "$VERIF_REPO not clean"; exit 3; }
mkdir -p $VERIF_DIR/out/mutation; RES=$VERIF_DIR/out/mutation/rejudged.tsv
(cd $VERIF_DIR/harness && . ../scripts/env.sh && prep_mod && go build $MODFILE -o $VERIF_DIR/bin/mutgen ./cmd/mutgen) || exit 3
checks_for() {
  case "$1" in
    x/stream/*) echo "C11 C10 C12 C13 C14 C20 C18 C15";;
    x/enterprise/ante/*|x/enterprise/keeper/locked.go) echo "C05 C04 C17 C02 C14 C06";;
    x/enterprise/keeper/grpc_query.go) echo "C20 C17 C04 C03";;
    x/enterprise/*) echo "C03 C14 C02 C13 C16 C04 C15 C20";;
    x/wrkchain/ante/*|x/beacon/ante/*) echo "C06 C08 C01 C05";;
    x/wrkchain/*|x/beacon/*) echo "C08 C07 C09 C13 C16 C15 C20 C14";;
    *) echo "C01";;
  esac
}
grep "SURVIVED" "$IN" > /tmp/mutr.list.$$
while IFS=$'\t' read -r file idx line kind desc verdict <&3; do
  if grep -q "^$file	$idx	" $RES 2>/dev/null; then continue; fi
  $VERIF_DIR/bin/mutgen apply $file $idx > /tmp/mutr.src.$$ && cp /tmp/mutr.src.$$ $file
  v="SURVIVED-ALL"
  for chk in $(checks_for $file); do
    res=$(cd $VERIF_DIR && timeout 1800 ./scripts/check.sh $chk quick 2>&1 < /dev/null)
    if echo "$res" | grep -q "^VIOLATION"; then
      rule=$(echo "$res" | grep -E "^  rule=" | head -1 | sed -E 's/^  rule=([^ ]+) sig=([^ ]+).*/\1 \/ \2/')
      v="CAUGHT $chk $rule"; break
    fi
  done
  printf "%s\t%s\t%s\t%s\t%s\t%s\n" "$file" "$idx" "$line" "$kind" "$desc" "$v" >> $RES
  echo "$file:$line [$kind] $desc => $v"
  git checkout -q -- $file
done 3< /tmp/mutr.list.$$
rm -f /tmp/mutr.src.$$ /tmp/mutr.list.$$
