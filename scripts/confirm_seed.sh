#!/bin/bash
# confirm_seed.sh <ID> [srcdir]: confirm a seeded change in a scratch worktree of /repo HEAD:
#  (1) applies, builds, whole pinned suite passes with it; (2) demo fails with it; (3) demo passes without it.
# On success stores it as /verif/seeded/<ID>/ {patch.diff, demo_test.go, meta.json}.
. /verif/scripts/env.sh
ID=$1; SRC=${2:-/tmp/seed-out/$ID}
NAME=${3:-$ID}
W=/tmp/confirm-$NAME
git -C /repo worktree remove --force $W 2>/dev/null; rm -rf $W
git -C /repo worktree add -q $W HEAD || exit 3
M=$(mktemp -d /tmp/confirm-mod-XXXX); cp /repo/go.mod /repo/go.sum $M/
cd $W
DEMO_PATH=$(python3 -c "import json;m=json.load(open('$SRC/meta.json'));print(m.get('demo_path') or m.get('demo_test_path') or m.get('path') or m.get('demo_file') or m.get('demo_test_file') or '')")
[ -z "$DEMO_PATH" ] && DEMO_PATH=$(python3 - <<PY
import json
m=json.load(open('$SRC/meta.json'))
for k,v in m.items():
    if isinstance(v,str) and v.endswith('_test.go') and '/' in v and not v.startswith('/tmp'):
        print(v); break
PY
)
echo "demo path: $DEMO_PATH"
res() { echo "$1" | tee -a $M/result.txt; }
git apply --3way $SRC/patch.diff 2>/dev/null || git apply $SRC/patch.diff || { res "APPLY-FAILED"; exit 1; }
go build -modfile=$M/go.mod ./... || { res "BUILD-FAILED"; exit 1; }
go test -modfile=$M/go.mod -vet=off -count=1 ./... > $M/suite.log 2>&1 && res "suite-with-change: PASS" || { res "suite-with-change: FAIL"; grep -E "^(FAIL|---)" $M/suite.log | head; }
mkdir -p $(dirname $DEMO_PATH); cp $SRC/demo_test.go $DEMO_PATH
PKG=./$(dirname $DEMO_PATH)/
rundemo() { go test -modfile=$M/go.mod -vet=off -count=1 -run 'Seeded|Demo|seeded' $PKG > $1 2>&1 && go test -modfile=$M/go.mod -vet=off -count=1 -run '/(Seeded|Demo|seeded)' $PKG >> $1 2>&1; }
rundemo $M/demo_with.log && res "demo-with-change: PASS (unexpected)" || res "demo-with-change: FAIL (expected)"
git apply -R $SRC/patch.diff 2>/dev/null || git checkout -q -- $(git diff --name-only)
rundemo $M/demo_without.log && res "demo-without-change: PASS (expected)" || { res "demo-without-change: FAIL (unexpected)"; tail -20 $M/demo_without.log; }
if grep -q "suite-with-change: PASS" $M/result.txt && grep -q "demo-with-change: FAIL" $M/result.txt && grep -q "demo-without-change: PASS" $M/result.txt; then
  D=/verif/seeded/$NAME; mkdir -p $D
  cp $SRC/patch.diff $D/patch.diff; cp $SRC/demo_test.go $D/demo_test.go
  python3 - <<PY
import json
m=json.load(open('$SRC/meta.json'))
m['demo_path']='$DEMO_PATH'
m['confirmed']={'base_commit':'$(git -C /repo rev-parse --short HEAD)','ran':['git apply patch.diff; go build ./...; go test -vet=off -count=1 ./... (whole pinned suite): pass','demo with change: fail','demo without change: pass'],'demo_fail_excerpt':open('$M/demo_with.log').read()[-1200:]}
json.dump(m,open('$D/meta.json','w'),indent=1)
PY
  res "CONFIRMED -> $D"
fi
cd /; git -C /repo worktree remove --force $W; rm -rf $M; pkill -x dbus-daemon 2>/dev/null
