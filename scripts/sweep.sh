#!/bin/bash
# sweep.sh [tier] [seed...] : run every claimed check; summary lines only
TIER=${1:-quick}; shift
SEEDS=${@:-1}
cd ${VERIF_DIR:-/verif}
for s in $SEEDS; do
  for id in $(python3 -c "import json;print(' '.join(c['property_id'] for c in json.load(open('MANIFEST.json'))['checks']))"); do
    start=$(date +%s)
    out=$(VERIF_SEED=$s ./scripts/check.sh $id $TIER 2>&1); rc=$?
    echo "seed=$s rc=$rc $(( $(date +%s)-start ))s $(echo "$out" | grep -E "^C[0-9]+ (quick|thorough)" | tail -1)"
    echo "$out" | grep -E "^VIOLATION|inconclusive:" | head -5
  done
done
