#!/bin/bash
# check.sh <id> <quick|thorough>   |   check.sh replay <file>
# Rebuilds the harness from /repo's current working tree, runs the check, leaves the evidence file.
. "$(dirname "$0")/env.sh"
RACE_PROPS=" C01 C15 C20 "
if [ "$1" = replay ]; then
  build_vcheck race >&2 || { echo "build failed" >&2; exit 3; }
  exec "$VERIF_DIR/bin/vcheck" replay "$2"
fi
ID=$1; TIER=${2:-${VERIF_TIER:-quick}}
want=""
case "$RACE_PROPS" in *" $ID "*) want=race;; esac
build_vcheck $want >&2 || { echo "build failed for $ID (harness or /repo does not compile)" >&2; exit 3; }
if [ "$ID" = C19 ]; then
  UB=$(mktemp -d $VERIF_SCRATCH/verif-und-XXXXXX)
  sed 's#^module verifharness#module verifharness#' "$H/go.mod" > /dev/null
  (cd "$H" && go build $MODFILE -o "$UB/und" github.com/unification-com/mainchain/cmd/und) >&2 && export VERIF_UND_BIN="$UB/und"
fi
"$VERIF_DIR/bin/vcheck" run "$ID" "$TIER"
rc=$?
[ -n "$UB" ] && rm -rf "$UB"
pkill -x dbus-daemon 2>/dev/null
exit $rc
