#!/usr/bin/env python3-vt
import json,jsonschema,glob,sys
jsonschema.validate(json.load(open('/verif/MANIFEST.json')),json.load(open('/root/.vp/MANIFEST.schema.json')))
s=json.load(open('/root/.vp/EVIDENCE.schema.json'))
for f in sorted(glob.glob('/verif/evidence/*.json')):
    jsonschema.validate(json.load(open(f)),s)
    e=json.load(open(f)); print(f, e['tier'], e.get('verdict'), 'distinct', e['coverage']['distinct_nontrivial'], 'wall', round(e['wall_s'],1))
print('manifest+evidence valid')
