#!/usr/bin/env python3
# design_table.py: the "what a quick run observes" table of DESIGN.md section 10, from evidence/*.json
import json, glob, re, os
pick = {
 'C01': ['replica_blocks_compared','restart_points','commit_kill_points','race_calls'],
 'C02': ['block_boundaries','mints','txs','genesis_orders_of_blocked_module_accounts'],
 'C03': ['sequences','orders_completed','orders_terminal','crowd_orders'],
 'C04': ['book_checks','completions','unlocks','gov_purchaser_orders'],
 'C05': ['unlocks_observed','completions_observed','txs'],
 'C06': ['checktx','admitted','admitted_executed','fee_granter_txs'],
 'C07': ['point_queries','records_accepted','overwrite_attempts_rejected','prunes'],
 'C08': ['purchases_ok','purchases_rejected','prunes','gov_as_owner_proposals'],
 'C09': ['registrations','nonowner_attempts_rejected','probe_blocks'],
 'C10': ['releases','stream_boundaries','stream_cancel'],
 'C11': ['pure_cases','releases'],
 'C12': ['probes','pure_cases'],
 'C13': ['probes','probes_wrong_key','probes_not_entitled','crafted_probes','gov_delivered_probes'],
 'C14': ['failed_txs_checked','block_phases'],
 'C15': ['round_trips','continuation_blocks','streams_to_odd_length_receivers'],
 'C16': ['proposals','invalid_proposals','valid_applied','signer_effect_probes','stale_fee_probes'],
 'C17': ['supply_queries','page_walks'],
 'C18': ['key_pairs','keeper_entities','top_of_id_space_ops'],
 'C19': ['conversions','command_runs','cli_runs'],
 'C20': ['page_walks','items_compared','reimports'],
}
common = ['mid_block_reads_compared','simulated_before_delivery','checked_before_delivery','reimports','gov_proposals_rolled_back']
print('| Id | quick cases | wall | deciding observations of this quick run (counters of the evidence file) | common machinery |')
print('|---|---|---|---|---|')
for f in sorted(glob.glob(os.path.join(os.path.dirname(__file__),'..','evidence','C*.json'))):
    d=json.load(open(f)); c=d['coverage']['counters']; i=d['property_id']
    obs=', '.join('%s %s'%(k.replace('_',' '),c[k]) for k in pick.get(i,[]) if k in c)
    com=', '.join('%s %s'%(k.replace('_',' '),c[k]) for k in common if k in c and k not in pick.get(i,[]))
    print('| %s | %s (%s distinct situations) | %.0f s | %s | %s |'%(i,d['coverage']['evaluations'],d['coverage']['distinct_nontrivial'],d['wall_s'],obs,com or '-'))
