#!/bin/bash
# try_seed.sh <patch.diff> <property id>... : apply a seeded change to the repository, run the quick
# checks, undo it. VERIF_DIR / VERIF_REPO select a scratch pair (default: /verif and /repo).
P=$1; shift
VD=${VERIF_DIR:-/verif}; RP=${VERIF_REPO:-/repo}
cd $RP || exit 3
if [ -n "$(git status --porcelain)" ]; then echo "$RP not clean"; exit 3; fi
git apply --3way "$P" 2>/dev/null || git apply "$P" || { echo "patch does not apply"; exit 3; }
git reset -q 2>/dev/null
trap 'cd $RP && git checkout -q -- . && git clean -fdq x app ante types cmd 2>/dev/null' EXIT
for id in "$@"; do
  (cd $VD && VERIF_DIR=$VD VERIF_REPO=$RP ./scripts/check.sh $id ${TIER:-quick} 2>&1 | cut -c1-400 | tail -${LINES_OUT:-6})
  echo "== $id rc=${PIPESTATUS[0]}"
done
