#!/bin/bash
# try_seed.sh <patch.diff> <property id>... : apply a seeded change to /repo, run the quick checks, undo it.
P=$1; shift
cd /repo || exit 3
if [ -n "$(git status --porcelain)" ]; then echo "/repo not clean"; exit 3; fi
git apply --3way "$P" 2>/dev/null || git apply "$P" || { echo "patch does not apply"; exit 3; }
git reset -q 2>/dev/null
trap 'cd /repo && git checkout -q -- . && git clean -fdq x app ante types cmd 2>/dev/null' EXIT
for id in "$@"; do
  (cd /verif && VERIF_DIR=/verif ./scripts/check.sh $id ${TIER:-quick} 2>&1 | cut -c1-400 | tail -${LINES_OUT:-6})
  echo "== $id rc=${PIPESTATUS[0]}"
done
