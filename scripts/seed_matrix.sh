#!/bin/bash
# seed_matrix.sh [tier] [name-glob, default *] : apply every confirmed seeded change in turn, run the
# check of the property it breaks (+ meta.also_run), undo it, and write seeded/MATRIX.md (caught /
# missed, first rule that fired). Works on $VERIF_REPO (default /repo; must be clean) with the
# framework in $VERIF_DIR (default /verif), so a sweep can run on scratch copies of both:
#   git -C /repo worktree add /var/tmp/repo-matrix HEAD; rsync -a --exclude out --exclude bin /verif/ /var/tmp/verif-matrix/
#   VERIF_DIR=/var/tmp/verif-matrix VERIF_REPO=/var/tmp/repo-matrix /var/tmp/verif-matrix/scripts/seed_matrix.sh
TIER=${1:-quick}
GLOB=${2:-*}
export VERIF_DIR=${VERIF_DIR:-/verif}
export VERIF_REPO=${VERIF_REPO:-/repo}
cd $VERIF_REPO || exit 3
[ -n "$(git status --porcelain)" ] && { echo "$VERIF_REPO not clean"; exit 3; }
OUT=$VERIF_DIR/seeded/MATRIX.md
if [ "$GLOB" = "*" ]; then
echo "| seed | breaks | check run | result | first rule/sig that fired |" > $OUT
echo "|---|---|---|---|---|" >> $OUT
fi
for d in $VERIF_DIR/seeded/$GLOB/; do
  name=$(basename $d); [ -f $d/patch.diff ] || continue
  prop=$(python3 -c "import json;print(json.load(open('$d/meta.json'))['property'])")
  git apply --3way $d/patch.diff 2>/dev/null || git apply $d/patch.diff || { echo "| $name | $prop | - | PATCH DOES NOT APPLY | |" >> $OUT; git checkout -q -- .; continue; }
  git reset -q
  also=$(python3 -c "import json;print(' '.join(json.load(open('$d/meta.json')).get('also_run',[])))")
  for chk in $prop $also; do
    res=$(cd $VERIF_DIR && ./scripts/check.sh $chk $TIER 2>&1)
    rule=$(echo "$res" | grep -E "^  rule=" | head -1 | sed -E 's/^  rule=([^ ]+) sig=([^ ]+).*/\1 \/ \2/')
    if echo "$res" | grep -q "^VIOLATION"; then r="CAUGHT"; else r="missed"; fi
    echo "| $name | $prop | $chk $TIER | $r | $rule |" >> $OUT
    echo "$name [$chk] $r $rule"
  done
  git checkout -q -- . ; git clean -fdq x app ante types cmd 2>/dev/null
done
cd $VERIF_DIR && ./scripts/check.sh C19 quick >/dev/null 2>&1  # leave bin/ built from the clean tree
