package lab

import (
	"context"
	"fmt"

	abci "github.com/cometbft/cometbft/abci/types"
	"github.com/cosmos/gogoproto/proto"
	"google.golang.org/grpc"

	"github.com/unification-com/mainchain/app"
)

// ABCIConn serves gRPC query clients through the application's ABCI Query entry point - the path a
// request takes on a real node (gRPC router, the services as the modules REGISTERED them, a query
// context of the last committed height) - instead of calling a keeper's handler method directly.
type ABCIConn struct{ App *app.App }

func (c ABCIConn) Invoke(_ context.Context, method string, args, reply interface{}, _ ...grpc.CallOption) error {
	req, ok := args.(proto.Message)
	if !ok {
		return fmt.Errorf("abci conn: request of %s is no proto message", method)
	}
	bz, err := proto.Marshal(req)
	if err != nil {
		return err
	}
	res := c.App.Query(abci.RequestQuery{Path: method, Data: bz})
	if res.Code != 0 {
		return fmt.Errorf("query %s failed: codespace %s code %d: %s", method, res.Codespace, res.Code, res.Log)
	}
	out, ok := reply.(proto.Message)
	if !ok {
		return fmt.Errorf("abci conn: reply of %s is no proto message", method)
	}
	return proto.Unmarshal(res.Value, out)
}

func (c ABCIConn) NewStream(context.Context, *grpc.StreamDesc, string, ...grpc.CallOption) (grpc.ClientStream, error) {
	return nil, fmt.Errorf("abci conn: streaming is not supported")
}
