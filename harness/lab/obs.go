package lab

import (
	"bytes"
	"crypto/sha256"
	"encoding/hex"
	"fmt"
	"sort"

	"cosmossdk.io/math"
	sdk "github.com/cosmos/cosmos-sdk/types"
	authtypes "github.com/cosmos/cosmos-sdk/x/auth/types"
	distrtypes "github.com/cosmos/cosmos-sdk/x/distribution/types"
	govtypes "github.com/cosmos/cosmos-sdk/x/gov/types"
	stakingtypes "github.com/cosmos/cosmos-sdk/x/staking/types"

	beacontypes "github.com/unification-com/mainchain/x/beacon/types"
	enttypes "github.com/unification-com/mainchain/x/enterprise/types"
	streamtypes "github.com/unification-com/mainchain/x/stream/types"
	wrkchaintypes "github.com/unification-com/mainchain/x/wrkchain/types"
)

// StoreNames are all persistent KV stores of the application.
var StoreNames = []string{"acc", "bank", "staking", "crisis", "distribution", "slashing", "gov", "params", "consensus", "ibc",
	"upgrade", "feegrant", "evidence", "transfer", "capability", "authz", "group", "enterprise", "beacon", "wrkchain", "stream"}

var CustomStores = []string{"enterprise", "beacon", "wrkchain", "stream"}

var ModuleAccounts = []string{authtypes.FeeCollectorName, distrtypes.ModuleName, stakingtypes.BondedPoolName, stakingtypes.NotBondedPoolName,
	govtypes.ModuleName, enttypes.ModuleName, "transfer", streamtypes.ModuleName}

func ModAddr(name string) sdk.AccAddress { return authtypes.NewModuleAddress(name) }

// Snapshot is a raw key/value copy of the named stores.
type Snapshot map[string]map[string][]byte

func (l *Lab) SnapshotStores(ctx sdk.Context, names []string) Snapshot {
	s := Snapshot{}
	for _, n := range names {
		k := l.App.GetKey(n)
		if k == nil {
			continue
		}
		m := map[string][]byte{}
		it := ctx.KVStore(k).Iterator(nil, nil)
		for ; it.Valid(); it.Next() {
			m[string(it.Key())] = append([]byte(nil), it.Value()...)
		}
		it.Close()
		s[n] = m
	}
	return s
}

type KeyDiff struct {
	Store string
	Key   []byte
	Old   []byte
	New   []byte
}

func (d KeyDiff) String() string {
	return fmt.Sprintf("%s/%x: %x -> %x", d.Store, d.Key, trunc(d.Old), trunc(d.New))
}
func trunc(b []byte) []byte {
	if len(b) > 24 {
		return b[:24]
	}
	return b
}

func DiffSnapshots(a, b Snapshot) []KeyDiff {
	var out []KeyDiff
	names := map[string]bool{}
	for n := range a {
		names[n] = true
	}
	for n := range b {
		names[n] = true
	}
	var ns []string
	for n := range names {
		ns = append(ns, n)
	}
	sort.Strings(ns)
	for _, n := range ns {
		am, bm := a[n], b[n]
		var keys []string
		for k := range am {
			keys = append(keys, k)
		}
		for k := range bm {
			if _, ok := am[k]; !ok {
				keys = append(keys, k)
			}
		}
		sort.Strings(keys)
		for _, k := range keys {
			if !bytes.Equal(am[k], bm[k]) {
				out = append(out, KeyDiff{n, []byte(k), am[k], bm[k]})
			}
		}
	}
	return out
}

func (s Snapshot) Digest() string {
	h := sha256.New()
	var ns []string
	for n := range s {
		ns = append(ns, n)
	}
	sort.Strings(ns)
	for _, n := range ns {
		var keys []string
		for k := range s[n] {
			keys = append(keys, k)
		}
		sort.Strings(keys)
		fmt.Fprintf(h, "%s:%d;", n, len(keys))
		for _, k := range keys {
			fmt.Fprintf(h, "%d:%s=%d:", len(k), k, len(s[n][k]))
			h.Write(s[n][k])
		}
	}
	return hex.EncodeToString(h.Sum(nil))[:16]
}

// AcctObs is what the monitors see of one account.
type AcctObs struct {
	Bal       sdk.Coins
	Spendable sdk.Coins
	Seq       uint64
	Exists    bool
	Locked    math.Int // enterprise locked eFUND (amount)
	Spent     math.Int
}

type Obs struct {
	Height int64
	Time   int64
	Accts  map[string]AcctObs // keyed by bech32 (lowercase) address, all lab accounts + module accounts
	Supply sdk.Coins

	EntParams   enttypes.Params
	POs         []enttypes.EnterpriseUndPurchaseOrder
	Whitelist   []string
	TotalLocked sdk.Coin
	TotalSpent  sdk.Coin
	LockedList  []enttypes.LockedUnd
	SpentList   []enttypes.SpentEFUND
	RaisedQ     []uint64
	AcceptedQ   []uint64
	NextPO      uint64

	WrkParams wrkchaintypes.Params
	Wrk       []wrkchaintypes.WrkChain
	WrkLimit  map[uint64]uint64
	WrkBlocks map[uint64][]wrkchaintypes.WrkChainBlock
	NextWrk   uint64

	BeaconParams beacontypes.Params
	Beacons      []beacontypes.Beacon
	BeaconLimit  map[uint64]uint64
	BeaconTs     map[uint64][]beacontypes.BeaconTimestamp
	NextBeacon   uint64

	StreamParams streamtypes.Params
	Streams      []streamtypes.StreamExport

	// The *Params fields above hold what the STORE holds (raw bytes of the module's params key,
	// decoded here). ParamsMismatch lists the modules whose keeper read API reported something else
	// ("<module>: reported {...} stored {...}"): a second, independent observation channel, needed
	// because a keeper that answers from process memory would otherwise also feed the oracles.
	ParamsMismatch []string
}

func (o *Obs) Acct(a sdk.AccAddress) AcctObs { return o.Accts[a.String()] }
func (o *Obs) Mod(name string) AcctObs       { return o.Accts[ModAddr(name).String()] }

// Observe captures the semantic state through the keepers' public read API on ctx.
func (l *Lab) Observe(ctx sdk.Context) *Obs {
	a := l.App
	defer func() {
		if p := recover(); p != nil {
			if l.OnReadPanic != nil {
				l.OnReadPanic(p)
			}
			panic(p)
		}
	}()
	o := &Obs{Height: ctx.BlockHeight(), Time: ctx.BlockTime().Unix(), Accts: map[string]AcctObs{}}
	obsAcct := func(addr sdk.AccAddress) {
		ao := AcctObs{Bal: a.BankKeeper.GetAllBalances(ctx, addr), Spendable: a.BankKeeper.SpendableCoins(ctx, addr)}
		if acc := a.AccountKeeper.GetAccount(ctx, addr); acc != nil {
			ao.Exists = true
			ao.Seq = acc.GetSequence()
		}
		ao.Locked = a.EnterpriseKeeper.GetLockedUndAmountForAccount(ctx, addr).Amount
		ao.Spent = a.EnterpriseKeeper.GetSpentEFUNDAmountForAccount(ctx, addr).Amount
		o.Accts[addr.String()] = ao
	}
	for _, ac := range l.Accts {
		obsAcct(ac.Addr)
	}
	for _, m := range ModuleAccounts {
		obsAcct(ModAddr(m))
	}
	a.BankKeeper.IterateTotalSupply(ctx, func(c sdk.Coin) bool { o.Supply = o.Supply.Add(c); return false })

	ek := a.EnterpriseKeeper
	o.EntParams = ek.GetParams(ctx)
	if bz := ctx.KVStore(a.GetKey("enterprise")).Get(enttypes.ParamsKey); bz != nil {
		var raw enttypes.Params
		if a.AppCodec().Unmarshal(bz, &raw) == nil && raw.String() != o.EntParams.String() {
			o.ParamsMismatch = append(o.ParamsMismatch, fmt.Sprintf("enterprise: reported {%s} stored {%s}", o.EntParams.String(), raw.String()))
			o.EntParams = raw
		}
	}
	o.POs = ek.GetAllPurchaseOrders(ctx)
	o.Whitelist = ek.GetAllWhitelistedAddresses(ctx)
	o.TotalLocked = ek.GetTotalLockedUnd(ctx)
	o.TotalSpent = ek.GetTotalSpentEFUND(ctx)
	o.LockedList = ek.GetAllLockedUnds(ctx)
	o.SpentList = ek.GetAllSpentEFUNDs(ctx)
	o.RaisedQ = ek.GetAllRaisedPurchaseOrders(ctx)
	o.AcceptedQ = ek.GetAllAcceptedPurchaseOrders(ctx)
	o.NextPO, _ = ek.GetHighestPurchaseOrderID(ctx)

	wk := a.WrkchainKeeper
	o.WrkParams = wk.GetParams(ctx)
	if bz := ctx.KVStore(a.GetKey("wrkchain")).Get(wrkchaintypes.ParamsKey); bz != nil {
		var raw wrkchaintypes.Params
		if a.AppCodec().Unmarshal(bz, &raw) == nil && raw.String() != o.WrkParams.String() {
			o.ParamsMismatch = append(o.ParamsMismatch, fmt.Sprintf("wrkchain: reported {%s} stored {%s}", o.WrkParams.String(), raw.String()))
			o.WrkParams = raw
		}
	}
	o.Wrk = wk.GetAllWrkChains(ctx)
	o.WrkLimit = map[uint64]uint64{}
	o.WrkBlocks = map[uint64][]wrkchaintypes.WrkChainBlock{}
	for _, w := range o.Wrk {
		lim, _ := wk.GetWrkChainStorageLimit(ctx, w.WrkchainId)
		o.WrkLimit[w.WrkchainId] = lim.InStateLimit
		o.WrkBlocks[w.WrkchainId] = wk.GetAllWrkChainBlockHashes(ctx, w.WrkchainId)
	}
	o.NextWrk, _ = wk.GetHighestWrkChainID(ctx)

	bk := a.BeaconKeeper
	o.BeaconParams = bk.GetParams(ctx)
	if bz := ctx.KVStore(a.GetKey("beacon")).Get(beacontypes.ParamsKey); bz != nil {
		var raw beacontypes.Params
		if a.AppCodec().Unmarshal(bz, &raw) == nil && raw.String() != o.BeaconParams.String() {
			o.ParamsMismatch = append(o.ParamsMismatch, fmt.Sprintf("beacon: reported {%s} stored {%s}", o.BeaconParams.String(), raw.String()))
			o.BeaconParams = raw
		}
	}
	o.Beacons = bk.GetAllBeacons(ctx)
	o.BeaconLimit = map[uint64]uint64{}
	o.BeaconTs = map[uint64][]beacontypes.BeaconTimestamp{}
	for _, b := range o.Beacons {
		lim, _ := bk.GetBeaconStorageLimit(ctx, b.BeaconId)
		o.BeaconLimit[b.BeaconId] = lim.InStateLimit
		o.BeaconTs[b.BeaconId] = bk.GetAllBeaconTimestamps(ctx, b.BeaconId)
	}
	o.NextBeacon, _ = bk.GetHighestBeaconID(ctx)

	sk := a.StreamKeeper
	o.StreamParams = sk.GetParams(ctx)
	if bz := ctx.KVStore(a.GetKey("stream")).Get(streamtypes.ParamsKey); bz != nil {
		var raw streamtypes.Params
		if a.AppCodec().Unmarshal(bz, &raw) == nil && raw.String() != o.StreamParams.String() {
			o.ParamsMismatch = append(o.ParamsMismatch, fmt.Sprintf("stream: reported {%s} stored {%s}", o.StreamParams.String(), raw.String()))
			o.StreamParams = raw
		}
	}
	sk.IterateAllStreams(ctx, func(r, s sdk.AccAddress, st streamtypes.Stream) bool {
		o.Streams = append(o.Streams, streamtypes.StreamExport{Receiver: r.String(), Sender: s.String(), Stream: st})
		return false
	})
	return o
}

// Invariants evaluates every invariant registered with the crisis keeper on a cache context.
// Returns the messages of the broken ones.
func (l *Lab) Invariants(ctx sdk.Context) []string {
	var broken []string
	cctx, _ := ctx.CacheContext()
	for _, r := range l.App.CrisisKeeper.Routes() {
		func() {
			defer func() {
				if rec := recover(); rec != nil {
					broken = append(broken, fmt.Sprintf("%s/%s panicked: %v", r.ModuleName, r.Route, rec))
				}
			}()
			if msg, bad := r.Invar(cctx); bad {
				broken = append(broken, fmt.Sprintf("%s/%s: %s", r.ModuleName, r.Route, msg))
			}
		}()
	}
	return broken
}
