// Package lab drives the real und application (app.App) through ABCI: generated genesis, really
// signed transactions through the full ante chain, virtual block time, governance/authz helpers.
package lab

import (
	"encoding/json"
	"fmt"
	"os"
	"strings"
	"time"

	"cosmossdk.io/math"
	dbm "github.com/cometbft/cometbft-db"
	abci "github.com/cometbft/cometbft/abci/types"
	"github.com/cometbft/cometbft/libs/log"
	tmproto "github.com/cometbft/cometbft/proto/tendermint/types"
	"github.com/cosmos/cosmos-sdk/baseapp"
	"github.com/cosmos/cosmos-sdk/client/flags"
	codectypes "github.com/cosmos/cosmos-sdk/codec/types"
	"github.com/cosmos/cosmos-sdk/crypto/keys/ed25519"
	"github.com/cosmos/cosmos-sdk/crypto/keys/secp256k1"
	cryptotypes "github.com/cosmos/cosmos-sdk/crypto/types"
	simtestutil "github.com/cosmos/cosmos-sdk/testutil/sims"
	sdk "github.com/cosmos/cosmos-sdk/types"
	"github.com/cosmos/cosmos-sdk/types/tx/signing"
	authsigning "github.com/cosmos/cosmos-sdk/x/auth/signing"
	authtypes "github.com/cosmos/cosmos-sdk/x/auth/types"
	vestingtypes "github.com/cosmos/cosmos-sdk/x/auth/vesting/types"
	banktypes "github.com/cosmos/cosmos-sdk/x/bank/types"
	crisistypes "github.com/cosmos/cosmos-sdk/x/crisis/types"
	govtypes "github.com/cosmos/cosmos-sdk/x/gov/types"
	govv1 "github.com/cosmos/cosmos-sdk/x/gov/types/v1"
	stakingtypes "github.com/cosmos/cosmos-sdk/x/staking/types"

	"github.com/unification-com/mainchain/app"
	beacontypes "github.com/unification-com/mainchain/x/beacon/types"
	enttypes "github.com/unification-com/mainchain/x/enterprise/types"
	streamtypes "github.com/unification-com/mainchain/x/stream/types"
	wrkchaintypes "github.com/unification-com/mainchain/x/wrkchain/types"
)

const ChainID = "lab-1"
const Denom = "nund"    // native / default enterprise + fee denom
const Denom2 = "ufoo"   // a second, unrelated denomination
const DenomBig = "atto" // 18-decimal style denomination with huge balances

var StartTime = time.Unix(1_700_000_000, 0).UTC()

func init() { app.SetConfig() }

type Acct struct {
	Priv cryptotypes.PrivKey
	Addr sdk.AccAddress
	Kind string // base | delayed | continuous | periodic | permlocked
}

func NewAcct(i int) Acct {
	pk := secp256k1.GenPrivKeyFromSecret([]byte(fmt.Sprintf("lab-acct-%d", i)))
	return Acct{Priv: pk, Addr: sdk.AccAddress(pk.PubKey().Address()), Kind: "base"}
}

// Upper returns the all-uppercase bech32 spelling of the address (decodes to the same account).
func (a Acct) Upper() string { return strings.ToUpper(a.Addr.String()) }

type Options struct {
	NAccts         int
	Kinds          map[int]string // non-base account kinds
	VestAmt        int64          // original vesting amount (native) for vesting kinds
	NativeBal      int64          // per-account native balance
	NativeBalOf    map[int]int64  // per-account override of the native balance
	Ent            enttypes.Params
	Wrk            wrkchaintypes.Params
	Beacon         beacontypes.Params
	Stream         streamtypes.Params
	PoStartID      uint64
	WrkStartID     uint64
	BeaconStartID  uint64
	Whitelist      []int
	ExtraDenomsAll []string // further denominations every account holds 10^63 of
	ExtraDenoms    []string                              // further denominations in the genesis supply (held by account 0)
	GenesisPOs     []enttypes.EnterpriseUndPurchaseOrder // purchase orders present in the genesis document
	ExtraWhitelist []string
	// node-local configuration (must not influence consensus results)
	BaseAppOpts             []func(*baseapp.BaseApp)
	AppOpts                 map[string]interface{}
	Home                    string
	SkipInvariantsAtGenesis bool
}

func DefaultOptions() Options {
	return Options{
		NAccts:    8,
		NativeBal: 1_000_000_000_000_000,
		VestAmt:   400_000_000_000_000,
		Ent:       enttypes.Params{EntSigners: NewAcct(0).Addr.String() + "," + NewAcct(1).Addr.String(), Denom: Denom, MinAccepts: 1, DecisionTimeLimit: 1000},
		Wrk:       wrkchaintypes.NewParams(1000, 10, 5, Denom, 3, 10),
		Beacon:    beacontypes.NewParams(1000, 10, 5, Denom, 3, 10),
		Stream:    streamtypes.Params{ValidatorFee: sdk.NewDecWithPrec(1, 2)},
		PoStartID: 1, WrkStartID: 1, BeaconStartID: 1,
	}
}

type Lab struct {
	// OnReadPanic, if set, is told when the application's read API panicked inside Observe (the
	// panic then continues and ends the case)
	OnReadPanic func(p interface{})
	App         *app.App
	DB          dbm.DB
	Accts       []Acct
	Height      int64
	Time        time.Time
	ValCons     []byte
	ValOper     sdk.ValAddress
	InBlock     bool
	Opts        Options
}

var ValPriv = ed25519.GenPrivKeyFromSecret([]byte("lab-val"))

func appOptions(o Options) simtestutil.AppOptionsMap {
	m := simtestutil.AppOptionsMap{flags.FlagHome: o.Home}
	for k, v := range o.AppOpts {
		m[k] = v
	}
	if o.SkipInvariantsAtGenesis {
		m["x-crisis-skip-assert-invariants"] = true
	}
	return m
}

// NewApp constructs the application on db without running InitChain (used for restarts/imports).
func NewApp(db dbm.DB, o Options) *app.App {
	if o.Home == "" {
		o.Home, _ = os.MkdirTemp("/var/tmp", "verif-home-")
	}
	opts := append([]func(*baseapp.BaseApp){baseapp.SetChainID(ChainID)}, o.BaseAppOpts...)
	return app.NewApp(log.NewNopLogger(), db, nil, true, appOptions(o), opts...)
}

// Accounts are the lab accounts of an option set.
func Accounts(o Options) []Acct { return makeAccts(o) }

func makeAccts(o Options) []Acct {
	var as []Acct
	for i := 0; i < o.NAccts; i++ {
		a := NewAcct(i)
		if k, ok := o.Kinds[i]; ok {
			a.Kind = k
		}
		as = append(as, a)
	}
	return as
}

// GenesisState builds the genesis document (app state JSON) for the options.
func GenesisState(a *app.App, o Options, accts []Acct) []byte {
	cdc := a.AppCodec()
	gs := a.DefaultGenesis()
	var genAccs []authtypes.GenesisAccount
	var balances []banktypes.Balance
	total := sdk.NewCoins()
	huge := math.NewIntWithDecimal(1, 63) // 10^63 ≈ 2^209
	for ai, ac := range accts {
		nb := o.NativeBal
		if v, ok := o.NativeBalOf[ai]; ok {
			nb = v
		}
		coins := sdk.NewCoins(
			sdk.NewCoin(Denom, math.NewInt(nb)),
			sdk.NewCoin(Denom2, math.NewInt(1_000_000_000_000)),
			sdk.NewCoin(DenomBig, huge),
		)
		for _, d := range o.ExtraDenomsAll {
			coins = coins.Add(sdk.NewCoin(d, huge))
		}
		if ai == 0 {
			for _, d := range o.ExtraDenoms {
				coins = coins.Add(sdk.NewCoin(d, math.NewInt(1_000_000)))
			}
		}
		base := authtypes.NewBaseAccount(ac.Addr, nil, 0, 0)
		ov := sdk.NewCoins(sdk.NewInt64Coin(Denom, o.VestAmt))
		st := StartTime.Unix()
		switch ac.Kind {
		case "delayed":
			genAccs = append(genAccs, vestingtypes.NewDelayedVestingAccount(base, ov, st+1_000_000))
		case "continuous":
			genAccs = append(genAccs, vestingtypes.NewContinuousVestingAccount(base, ov, st, st+1_000_000))
		case "periodic":
			half := sdk.NewCoins(sdk.NewInt64Coin(Denom, o.VestAmt/2))
			rest := sdk.NewCoins(sdk.NewInt64Coin(Denom, o.VestAmt-o.VestAmt/2))
			genAccs = append(genAccs, vestingtypes.NewPeriodicVestingAccount(base, ov, st, vestingtypes.Periods{{Length: 500_000, Amount: half}, {Length: 500_000, Amount: rest}}))
		case "permlocked":
			genAccs = append(genAccs, vestingtypes.NewPermanentLockedAccount(base, ov))
		default:
			genAccs = append(genAccs, base)
		}
		balances = append(balances, banktypes.Balance{Address: ac.Addr.String(), Coins: coins})
		total = total.Add(coins...)
	}
	gs[authtypes.ModuleName] = cdc.MustMarshalJSON(authtypes.NewGenesisState(authtypes.DefaultParams(), genAccs))

	pkAny, _ := codectypes.NewAnyWithValue(ValPriv.PubKey())
	bondAmt := sdk.DefaultPowerReduction
	valAddr := sdk.ValAddress(ValPriv.PubKey().Address())
	validator := stakingtypes.Validator{
		OperatorAddress: valAddr.String(), ConsensusPubkey: pkAny, Status: stakingtypes.Bonded,
		Tokens: bondAmt, DelegatorShares: math.LegacyOneDec(), UnbondingTime: time.Unix(0, 0).UTC(),
		Commission:        stakingtypes.NewCommission(math.LegacyZeroDec(), math.LegacyZeroDec(), math.LegacyZeroDec()),
		MinSelfDelegation: math.ZeroInt(),
	}
	sp := stakingtypes.DefaultParams()
	sp.BondDenom = Denom
	gs[stakingtypes.ModuleName] = cdc.MustMarshalJSON(stakingtypes.NewGenesisState(sp, []stakingtypes.Validator{validator},
		[]stakingtypes.Delegation{stakingtypes.NewDelegation(accts[0].Addr, valAddr, math.LegacyOneDec())}))
	balances = append(balances, banktypes.Balance{Address: authtypes.NewModuleAddress(stakingtypes.BondedPoolName).String(), Coins: sdk.NewCoins(sdk.NewCoin(Denom, bondAmt))})
	total = total.Add(sdk.NewCoin(Denom, bondAmt))
	gs[banktypes.ModuleName] = cdc.MustMarshalJSON(banktypes.NewGenesisState(banktypes.DefaultGenesisState().Params, balances, total, nil, nil))

	gg := govv1.DefaultGenesisState()
	gg.Params.MinDeposit = sdk.NewCoins(sdk.NewInt64Coin(Denom, 1000))
	vp := 10 * time.Second
	gg.Params.VotingPeriod = &vp
	gs[govtypes.ModuleName] = cdc.MustMarshalJSON(gg)
	gs[crisistypes.ModuleName] = cdc.MustMarshalJSON(crisistypes.NewGenesisState(sdk.NewInt64Coin(Denom, 1000)))

	eg := enttypes.DefaultGenesisState()
	eg.Params = o.Ent
	eg.StartingPurchaseOrderId = o.PoStartID
	eg.TotalLocked = sdk.NewInt64Coin(o.Ent.Denom, 0)
	eg.TotalSpent = sdk.NewInt64Coin(o.Ent.Denom, 0)
	for _, i := range o.Whitelist {
		eg.Whitelist = append(eg.Whitelist, accts[i].Addr.String())
	}
	eg.Whitelist = append(eg.Whitelist, o.ExtraWhitelist...)
	eg.PurchaseOrders = append(eg.PurchaseOrders, o.GenesisPOs...)
	gs[enttypes.ModuleName] = cdc.MustMarshalJSON(eg)
	wg := wrkchaintypes.DefaultGenesisState()
	wg.Params = o.Wrk
	wg.StartingWrkchainId = o.WrkStartID
	gs[wrkchaintypes.ModuleName] = cdc.MustMarshalJSON(wg)
	bg := beacontypes.DefaultGenesisState()
	bg.Params = o.Beacon
	bg.StartingBeaconId = o.BeaconStartID
	gs[beacontypes.ModuleName] = cdc.MustMarshalJSON(bg)
	sg := streamtypes.DefaultGenesis()
	sg.Params = o.Stream
	gs[streamtypes.ModuleName] = cdc.MustMarshalJSON(sg)

	stateBytes, err := json.Marshal(gs)
	if err != nil {
		panic(err)
	}
	return stateBytes
}

// New builds a fresh chain: NewApp + InitChain + Commit + one empty block (so that CheckTx sees a
// non-zero height; at height 0 the SDK verifies signatures with account number 0).
func New(db dbm.DB, o Options) *Lab {
	if o.Home == "" {
		o.Home, _ = os.MkdirTemp("/var/tmp", "verif-home-")
	}
	l := &Lab{DB: db, Opts: o, Accts: makeAccts(o)}
	l.App = NewApp(db, o)
	l.ValCons = ValPriv.PubKey().Address()
	l.ValOper = sdk.ValAddress(ValPriv.PubKey().Address())
	l.Time = StartTime
	state := GenesisState(l.App, o, l.Accts)
	l.App.InitChain(abci.RequestInitChain{ChainId: ChainID, Time: StartTime, ConsensusParams: simtestutil.DefaultConsensusParams, AppStateBytes: state, InitialHeight: 1})
	l.App.Commit()
	l.Height = l.App.LastBlockHeight()
	l.Begin(time.Second)
	l.End()
	return l
}

// Attach wraps an already initialised application (after a restart or an import).
func Attach(a *app.App, db dbm.DB, o Options, height int64, t time.Time) *Lab {
	l := &Lab{App: a, DB: db, Opts: o, Accts: makeAccts(o), Height: height, Time: t}
	l.ValCons = ValPriv.PubKey().Address()
	l.ValOper = sdk.ValAddress(ValPriv.PubKey().Address())
	return l
}

func (l *Lab) Cleanup() {
	if l.Opts.Home != "" && strings.Contains(l.Opts.Home, "verif-home-") {
		os.RemoveAll(l.Opts.Home)
	}
}

func (l *Lab) Header() tmproto.Header {
	return tmproto.Header{ChainID: ChainID, Height: l.Height, Time: l.Time, ProposerAddress: l.ValCons}
}

func (l *Lab) Begin(dt time.Duration) abci.ResponseBeginBlock {
	l.Height++
	l.Time = l.Time.Add(dt)
	l.InBlock = true
	return l.App.BeginBlock(abci.RequestBeginBlock{Header: l.Header()})
}

func (l *Lab) End() []byte {
	l.App.EndBlock(abci.RequestEndBlock{Height: l.Height})
	l.InBlock = false
	return l.App.Commit().Data
}

func (l *Lab) EndNoCommit() abci.ResponseEndBlock {
	r := l.App.EndBlock(abci.RequestEndBlock{Height: l.Height})
	return r
}
func (l *Lab) Commit() []byte {
	l.InBlock = false
	return l.App.Commit().Data
}

// Tick runs an empty block dt later.
func (l *Lab) Tick(dt time.Duration) []byte {
	l.Begin(dt)
	return l.End()
}

// Ctx is a read context: the deliver state inside a block, the check state (committed state)
// between blocks.
func (l *Lab) Ctx() sdk.Context {
	if l.InBlock {
		return l.App.NewContext(false, l.Header())
	}
	return l.App.NewContext(true, tmproto.Header{ChainID: ChainID, Height: l.App.LastBlockHeight(), Time: l.Time, ProposerAddress: l.ValCons})
}

// QueryCtx is the context the node serves client queries with (committed state, latest height).
func (l *Lab) QueryCtx() sdk.Context {
	ctx, err := l.App.CreateQueryContext(0, false)
	if err != nil {
		panic(err)
	}
	return ctx
}

func (l *Lab) AccNumSeq(addr sdk.AccAddress) (uint64, uint64) {
	acc := l.App.AccountKeeper.GetAccount(l.Ctx(), addr)
	if acc == nil {
		return 0, 0
	}
	return acc.GetAccountNumber(), acc.GetSequence()
}

type TxSpec struct {
	Msgs     []sdk.Msg
	Signers  []Acct // keys that actually sign, in order
	Fee      sdk.Coins
	Gas      uint64
	Granter  sdk.AccAddress
	Payer    sdk.AccAddress
	SeqDelta int64 // added to the real sequence of every signer (0 = correct)
	Memo     string
	// SignAs, when set (same length as Signers), gives the address put into the SignerData for each
	// signature (default: the signer's own address).
}

func (l *Lab) BuildTx(s TxSpec) ([]byte, error) {
	txCfg := l.App.TxConfig()
	b := txCfg.NewTxBuilder()
	if err := b.SetMsgs(s.Msgs...); err != nil {
		return nil, err
	}
	b.SetFeeAmount(s.Fee)
	gas := s.Gas
	if gas == 0 {
		gas = 400_000
	}
	b.SetGasLimit(gas)
	b.SetMemo(s.Memo)
	if s.Granter != nil {
		b.SetFeeGranter(s.Granter)
	}
	if s.Payer != nil {
		b.SetFeePayer(s.Payer)
	}
	mode := txCfg.SignModeHandler().DefaultMode()
	type ns struct{ n, s uint64 }
	var nss []ns
	var sigs []signing.SignatureV2
	for _, a := range s.Signers {
		n, q := l.AccNumSeq(a.Addr)
		q = uint64(int64(q) + s.SeqDelta)
		nss = append(nss, ns{n, q})
		sigs = append(sigs, signing.SignatureV2{PubKey: a.Priv.PubKey(), Data: &signing.SingleSignatureData{SignMode: mode}, Sequence: q})
	}
	if err := b.SetSignatures(sigs...); err != nil {
		return nil, err
	}
	sigs = nil
	for i, a := range s.Signers {
		sd := authsigning.SignerData{ChainID: ChainID, AccountNumber: nss[i].n, Sequence: nss[i].s, PubKey: a.Priv.PubKey(), Address: a.Addr.String()}
		bz, err := txCfg.SignModeHandler().GetSignBytes(mode, sd, b.GetTx())
		if err != nil {
			return nil, err
		}
		sig, err := a.Priv.Sign(bz)
		if err != nil {
			return nil, err
		}
		sigs = append(sigs, signing.SignatureV2{PubKey: a.Priv.PubKey(), Data: &signing.SingleSignatureData{SignMode: mode, Signature: sig}, Sequence: nss[i].s})
	}
	if err := b.SetSignatures(sigs...); err != nil {
		return nil, err
	}
	return txCfg.TxEncoder()(b.GetTx())
}

func (l *Lab) MustBuild(s TxSpec) []byte {
	bz, err := l.BuildTx(s)
	if err != nil {
		panic(fmt.Sprintf("build tx: %v", err))
	}
	return bz
}

func (l *Lab) Deliver(bz []byte) abci.ResponseDeliverTx {
	return l.App.DeliverTx(abci.RequestDeliverTx{Tx: bz})
}
func (l *Lab) Check(bz []byte) abci.ResponseCheckTx {
	return l.App.CheckTx(abci.RequestCheckTx{Tx: bz, Type: abci.CheckTxType_New})
}

// Recheck is the CheckTx a node runs, after every Commit, on the transactions still in its mempool.
func (l *Lab) Recheck(bz []byte) abci.ResponseCheckTx {
	return l.App.CheckTx(abci.RequestCheckTx{Tx: bz, Type: abci.CheckTxType_Recheck})
}

// Tx builds, signs and delivers msgs signed by a with the given native fee.
func (l *Lab) Tx(a Acct, fee sdk.Coins, msgs ...sdk.Msg) abci.ResponseDeliverTx {
	return l.Deliver(l.MustBuild(TxSpec{Msgs: msgs, Signers: []Acct{a}, Fee: fee}))
}

func Nund(n int64) sdk.Coins          { return sdk.NewCoins(sdk.NewInt64Coin(Denom, n)) }
func Coin(d string, n int64) sdk.Coin { return sdk.NewInt64Coin(d, n) }

func GovAuthority() string { return authtypes.NewModuleAddress(govtypes.ModuleName).String() }

// EventAttr finds the first attribute key of event type typ in events.
func EventAttr(events []abci.Event, typ, key string) (string, bool) {
	for _, e := range events {
		if e.Type == typ {
			for _, at := range e.Attributes {
				if at.Key == key {
					return at.Value, true
				}
			}
		}
	}
	return "", false
}

func CountEvents(events []abci.Event, typ string) int {
	n := 0
	for _, e := range events {
		if e.Type == typ {
			n++
		}
	}
	return n
}

// GovResult describes what happened to a governance proposal driven by Gov().
type GovResult struct {
	SubmitCode uint32
	SubmitLog  string
	ProposalID uint64
	Status     govv1.ProposalStatus
	Hashes     [][]byte
}

// GovSubmit submits msgs as a proposal by account 0 and votes yes, inside the current block.
func (l *Lab) GovSubmit(msgs ...sdk.Msg) (GovResult, []byte, []byte) {
	a := l.Accts
	var gr GovResult
	sp, err := govv1.NewMsgSubmitProposal(msgs, Nund(1000), a[0].Addr.String(), "", "t", "s")
	if err != nil {
		gr.SubmitCode = 1
		gr.SubmitLog = err.Error()
		return gr, nil, nil
	}
	tx1 := l.MustBuild(TxSpec{Msgs: []sdk.Msg{sp}, Signers: []Acct{a[0]}, Gas: 2_000_000})
	r := l.Deliver(tx1)
	gr.SubmitCode = r.Code
	gr.SubmitLog = r.Log
	if r.Code != 0 {
		return gr, tx1, nil
	}
	if v, ok := EventAttr(r.Events, "submit_proposal", "proposal_id"); ok {
		fmt.Sscan(v, &gr.ProposalID)
	}
	tx2 := l.MustBuild(TxSpec{Msgs: []sdk.Msg{govv1.NewMsgVote(a[0].Addr, gr.ProposalID, govv1.OptionYes, "")}, Signers: []Acct{a[0]}, Gas: 1_000_000})
	l.Deliver(tx2)
	return gr, tx1, tx2
}

// Gov runs a whole proposal: block with submit+vote, then a block 11 s later in which the gov
// EndBlocker tallies and executes it.
func (l *Lab) Gov(msgs ...sdk.Msg) GovResult {
	l.Begin(time.Second)
	gr, _, _ := l.GovSubmit(msgs...)
	gr.Hashes = append(gr.Hashes, l.End())
	if gr.SubmitCode != 0 {
		return gr
	}
	l.Begin(11 * time.Second)
	gr.Hashes = append(gr.Hashes, l.End())
	p, ok := l.App.GovKeeper.GetProposal(l.Ctx(), gr.ProposalID)
	if ok {
		gr.Status = p.Status
	}
	return gr
}
