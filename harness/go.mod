module verifharness

go 1.22

require (
	cosmossdk.io/math v1.3.0
	github.com/anishathalye/porcupine v1.3.0
	github.com/cometbft/cometbft v0.37.5
	github.com/cometbft/cometbft-db v0.8.0
	github.com/cosmos/cosmos-sdk v0.47.13
	github.com/cosmos/gogoproto v1.4.10
	github.com/unification-com/mainchain v0.0.0
	google.golang.org/grpc v1.62.1
)

require (
	cloud.google.com/go v0.112.0 // indirect
	cloud.google.com/go/compute/metadata v0.2.3 // indirect
	cloud.google.com/go/iam v1.1.5 // indirect
	cloud.google.com/go/storage v1.36.0 // indirect
	cosmossdk.io/api v0.3.1 // indirect
	cosmossdk.io/core v0.5.1 // indirect
	cosmossdk.io/depinject v1.0.0-alpha.4 // indirect
	cosmossdk.io/errors v1.0.1 // indirect
	cosmossdk.io/log v1.3.1 // indirect
	cosmossdk.io/tools/rosetta v0.2.1 // indirect
	filippo.io/edwards25519 v1.0.0 // indirect
	github.com/99designs/keyring v1.2.1 // indirect
	github.com/ChainSafe/go-schnorrkel v1.0.0 // indirect
	github.com/armon/go-metrics v0.4.1 // indirect
	github.com/aws/aws-sdk-go v1.44.203 // indirect
	github.com/beorn7/perks v1.0.1 // indirect
	github.com/bgentry/go-netrc v0.0.0-20140422174119-9fd32a8b3d3d // indirect
	github.com/bgentry/speakeasy v0.1.1-0.20220910012023-760eaf8b6816 // indirect
	github.com/btcsuite/btcd/btcec/v2 v2.3.2 // indirect
	github.com/cenkalti/backoff/v4 v4.1.3 // indirect
	github.com/cespare/xxhash/v2 v2.2.0 // indirect
	github.com/chzyer/readline v1.5.1 // indirect
	github.com/cockroachdb/apd/v2 v2.0.2 // indirect
	github.com/cockroachdb/errors v1.10.0 // indirect
	github.com/cockroachdb/logtags v0.0.0-20230118201751-21c54148d20b // indirect
	github.com/cockroachdb/redact v1.1.5 // indirect
	github.com/coinbase/rosetta-sdk-go/types v1.0.0 // indirect
	github.com/confio/ics23/go v0.9.0 // indirect
	github.com/cosmos/btcutil v1.0.5 // indirect
	github.com/cosmos/cosmos-proto v1.0.0-beta.5 // indirect
	github.com/cosmos/go-bip39 v1.0.0 // indirect
	github.com/cosmos/gogogateway v1.2.0 // indirect
	github.com/cosmos/iavl v0.20.1 // indirect
	github.com/cosmos/ibc-go/v7 v7.7.0 // indirect
	github.com/cosmos/ics23/go v0.10.0 // indirect
	github.com/cosmos/rosetta-sdk-go v0.10.0 // indirect
	github.com/creachadair/taskgroup v0.4.2 // indirect
	github.com/davecgh/go-spew v1.1.2-0.20180830191138-d8f796af33cc // indirect
	github.com/decred/dcrd/dcrec/secp256k1/v4 v4.1.0 // indirect
	github.com/desertbit/timer v0.0.0-20180107155436-c41aec40b27f // indirect
	github.com/dvsekhvalnov/jose2go v1.6.0 // indirect
	github.com/felixge/httpsnoop v1.0.4 // indirect
	github.com/fsnotify/fsnotify v1.7.0 // indirect
	github.com/getsentry/sentry-go v0.23.0 // indirect
	github.com/go-kit/kit v0.12.0 // indirect
	github.com/go-kit/log v0.2.1 // indirect
	github.com/go-logfmt/logfmt v0.6.0 // indirect
	github.com/go-logr/logr v1.3.0 // indirect
	github.com/go-logr/stdr v1.2.2 // indirect
	github.com/godbus/dbus v0.0.0-20190726142602-4481cbc300e2 // indirect
	github.com/gogo/googleapis v1.4.1 // indirect
	github.com/gogo/protobuf v1.3.2 // indirect
	github.com/golang/groupcache v0.0.0-20210331224755-41bb18bfe9da // indirect
	github.com/golang/mock v1.6.0 // indirect
	github.com/golang/protobuf v1.5.4 // indirect
	github.com/golang/snappy v0.0.4 // indirect
	github.com/google/btree v1.1.2 // indirect
	github.com/google/go-cmp v0.6.0 // indirect
	github.com/google/orderedcode v0.0.1 // indirect
	github.com/google/s2a-go v0.1.7 // indirect
	github.com/google/uuid v1.6.0 // indirect
	github.com/googleapis/enterprise-certificate-proxy v0.3.2 // indirect
	github.com/googleapis/gax-go/v2 v2.12.0 // indirect
	github.com/gorilla/handlers v1.5.1 // indirect
	github.com/gorilla/mux v1.8.0 // indirect
	github.com/gorilla/websocket v1.5.0 // indirect
	github.com/grpc-ecosystem/go-grpc-middleware v1.3.0 // indirect
	github.com/grpc-ecosystem/grpc-gateway v1.16.0 // indirect
	github.com/gsterjov/go-libsecret v0.0.0-20161001094733-a6f4afe4910c // indirect
	github.com/gtank/merlin v0.1.1 // indirect
	github.com/gtank/ristretto255 v0.1.2 // indirect
	github.com/hashicorp/go-cleanhttp v0.5.2 // indirect
	github.com/hashicorp/go-getter v1.7.5 // indirect
	github.com/hashicorp/go-immutable-radix v1.3.1 // indirect
	github.com/hashicorp/go-safetemp v1.0.0 // indirect
	github.com/hashicorp/go-version v1.6.0 // indirect
	github.com/hashicorp/golang-lru v0.5.5-0.20210104140557-80c98217689d // indirect
	github.com/hashicorp/hcl v1.0.0 // indirect
	github.com/hdevalence/ed25519consensus v0.1.0 // indirect
	github.com/huandu/skiplist v1.2.0 // indirect
	github.com/improbable-eng/grpc-web v0.15.0 // indirect
	github.com/jmespath/go-jmespath v0.4.0 // indirect
	github.com/klauspost/compress v1.17.0 // indirect
	github.com/kr/pretty v0.3.1 // indirect
	github.com/kr/text v0.2.0 // indirect
	github.com/lib/pq v1.10.7 // indirect
	github.com/libp2p/go-buffer-pool v0.1.0 // indirect
	github.com/magiconair/properties v1.8.7 // indirect
	github.com/manifoldco/promptui v0.9.0 // indirect
	github.com/mattn/go-colorable v0.1.13 // indirect
	github.com/mattn/go-isatty v0.0.20 // indirect
	github.com/matttproud/golang_protobuf_extensions v1.0.4 // indirect
	github.com/mimoo/StrobeGo v0.0.0-20210601165009-122bf33a46e0 // indirect
	github.com/minio/highwayhash v1.0.2 // indirect
	github.com/mitchellh/go-homedir v1.1.0 // indirect
	github.com/mitchellh/go-testing-interface v1.14.1 // indirect
	github.com/mitchellh/mapstructure v1.5.0 // indirect
	github.com/mtibben/percent v0.2.1 // indirect
	github.com/pelletier/go-toml/v2 v2.1.0 // indirect
	github.com/pkg/errors v0.9.1 // indirect
	github.com/pmezard/go-difflib v1.0.1-0.20181226105442-5d4384ee4fb2 // indirect
	github.com/prometheus/client_golang v1.14.0 // indirect
	github.com/prometheus/client_model v0.3.0 // indirect
	github.com/prometheus/common v0.42.0 // indirect
	github.com/prometheus/procfs v0.9.0 // indirect
	github.com/rakyll/statik v0.1.7 // indirect
	github.com/rcrowley/go-metrics v0.0.0-20201227073835-cf1acfcdf475 // indirect
	github.com/rogpeppe/go-internal v1.11.0 // indirect
	github.com/rs/cors v1.8.3 // indirect
	github.com/rs/zerolog v1.32.0 // indirect
	github.com/sagikazarmark/slog-shim v0.1.0 // indirect
	github.com/spf13/afero v1.11.0 // indirect
	github.com/spf13/cast v1.6.0 // indirect
	github.com/spf13/cobra v1.8.0 // indirect
	github.com/spf13/pflag v1.0.5 // indirect
	github.com/spf13/viper v1.18.2 // indirect
	github.com/stretchr/testify v1.9.0 // indirect
	github.com/subosito/gotenv v1.6.0 // indirect
	github.com/syndtr/goleveldb v1.0.1-0.20220721030215-126854af5e6d // indirect
	github.com/tendermint/go-amino v0.16.0 // indirect
	github.com/tidwall/btree v1.6.0 // indirect
	github.com/ulikunitz/xz v0.5.11 // indirect
	go.opencensus.io v0.24.0 // indirect
	go.opentelemetry.io/contrib/instrumentation/google.golang.org/grpc/otelgrpc v0.46.1 // indirect
	go.opentelemetry.io/contrib/instrumentation/net/http/otelhttp v0.46.1 // indirect
	go.opentelemetry.io/otel v1.21.0 // indirect
	go.opentelemetry.io/otel/metric v1.21.0 // indirect
	go.opentelemetry.io/otel/trace v1.21.0 // indirect
	golang.org/x/crypto v0.21.0 // indirect
	golang.org/x/exp v0.0.0-20230905200255-921286631fa9 // indirect
	golang.org/x/net v0.23.0 // indirect
	golang.org/x/oauth2 v0.16.0 // indirect
	golang.org/x/sync v0.6.0 // indirect
	golang.org/x/sys v0.18.0 // indirect
	golang.org/x/term v0.18.0 // indirect
	golang.org/x/text v0.14.0 // indirect
	golang.org/x/time v0.5.0 // indirect
	google.golang.org/api v0.155.0 // indirect
	google.golang.org/genproto v0.0.0-20240123012728-ef4313101c80 // indirect
	google.golang.org/genproto/googleapis/api v0.0.0-20240123012728-ef4313101c80 // indirect
	google.golang.org/genproto/googleapis/rpc v0.0.0-20240123012728-ef4313101c80 // indirect
	google.golang.org/protobuf v1.33.0 // indirect
	gopkg.in/ini.v1 v1.67.0 // indirect
	gopkg.in/yaml.v2 v2.4.0 // indirect
	gopkg.in/yaml.v3 v3.0.1 // indirect
	nhooyr.io/websocket v1.8.6 // indirect
	pgregory.net/rapid v1.1.0 // indirect
	sigs.k8s.io/yaml v1.4.0 // indirect
)

replace github.com/unification-com/mainchain => /repo

replace github.com/99designs/keyring => github.com/cosmos/keyring v1.2.0

replace github.com/syndtr/goleveldb => github.com/syndtr/goleveldb v1.0.1-0.20210819022825-2ae1ddf74ef7

replace golang.org/x/exp => golang.org/x/exp v0.0.0-20230711153332-06a737ee72cb
