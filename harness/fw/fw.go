// Package fw is the check runner: deterministic case lists, worker child processes, aggregation,
// known-finding classification, evidence and replay files, three-valued verdicts.
package fw

import (
	"bufio"
	"encoding/json"
	"fmt"
	"os"
	"os/exec"
	"path/filepath"
	"runtime"
	"runtime/debug"
	"sort"
	"strconv"
	"strings"
	"sync"
	"time"
)

type Violation struct {
	Rule   string `json:"rule"`
	Sig    string `json:"sig"` // coarse class of the witness; known findings are matched on (rule, sig)
	Detail string `json:"detail"`
}

type CaseResult struct {
	Case       int              `json:"case"`
	Race       bool             `json:"race,omitempty"`
	Violations []Violation      `json:"violations,omitempty"`
	Counters   map[string]int64 `json:"counters,omitempty"`
	Distinct   []string         `json:"distinct,omitempty"`
	Sample     interface{}      `json:"sample,omitempty"`
	Nontrivial bool             `json:"nontrivial,omitempty"`
	Err        string           `json:"err,omitempty"` // harness fault: inconclusive, never a verdict
	Done       bool             `json:"done"`
}

// Ctx is handed to a property's Run function for one case.
type Ctx struct {
	Prop    string
	Tier    string
	Seed    int64
	Case    int
	Race    bool // running inside the -race binary
	Rng     *Rand
	Scratch string // per-case scratch directory (removed afterwards)
	Verbose bool
	res     *CaseResult
	dset    map[string]bool
}

func (c *Ctx) Thorough() bool { return c.Tier == "thorough" }
func (c *Ctx) Count(k string, n int64) {
	c.res.Counters[k] += n
}
func (c *Ctx) Distinct(k string) {
	if !c.dset[k] {
		c.dset[k] = true
		c.res.Distinct = append(c.res.Distinct, k)
	}
}
func (c *Ctx) Nontrivial()          { c.res.Nontrivial = true }
func (c *Ctx) Sample(v interface{}) { c.res.Sample = v }
func (c *Ctx) Violate(rule, sig, format string, a ...interface{}) {
	d := fmt.Sprintf(format, a...)
	if len(d) > 1500 {
		d = d[:1500] + "…"
	}
	// keep at most a handful per (rule,sig) per case
	n := 0
	for _, v := range c.res.Violations {
		if v.Rule == rule && v.Sig == sig {
			n++
		}
	}
	if n < 3 {
		c.res.Violations = append(c.res.Violations, Violation{rule, sig, d})
	}
	if c.Verbose {
		fmt.Fprintf(os.Stderr, "  violation rule=%s sig=%s %s\n", rule, sig, d)
	}
}
func (c *Ctx) Logf(format string, a ...interface{}) {
	if c.Verbose {
		fmt.Fprintf(os.Stderr, format+"\n", a...)
	}
}

type Property struct {
	ID          string
	Level       string // evidence "level"
	Rule        string // how cases are generated and what counts as non-trivial/distinct
	Cases       func(tier string) int
	Run         func(c *Ctx)
	RaceCases   func(tier string) int // cases additionally run inside the -race binary (0 = none)
	Assumptions []string
	// Need lists counters that must be > 0 over the whole run, else the run is inconclusive
	// ("observed nothing relevant").
	Need []string
}

var registry = map[string]*Property{}

func Register(p *Property)    { registry[p.ID] = p }
func Get(id string) *Property { return registry[id] }
func IDs() []string {
	var ids []string
	for k := range registry {
		ids = append(ids, k)
	}
	sort.Strings(ids)
	return ids
}

// ---------------------------------------------------------------------------------------------
// worker side

func runOne(p *Property, tier string, seed int64, idx int, race, verbose bool) (res CaseResult) {
	res = CaseResult{Case: idx, Race: race, Counters: map[string]int64{}}
	scratchBase := os.Getenv("VERIF_SCRATCH")
	if scratchBase == "" {
		scratchBase = "/var/tmp"
	}
	scratch, err := os.MkdirTemp(scratchBase, "verif-"+p.ID+"-")
	if err != nil {
		res.Err = "scratch: " + err.Error()
		return
	}
	defer os.RemoveAll(scratch)
	tag := p.ID
	if race {
		tag += "/race"
	}
	c := &Ctx{Prop: p.ID, Tier: tier, Seed: seed, Case: idx, Race: race, Rng: NewRand(Mix(seed, tag, idx)),
		Scratch: scratch, Verbose: verbose, res: &res, dset: map[string]bool{}}
	defer func() {
		if r := recover(); r != nil {
			res.Err = fmt.Sprintf("harness panic: %v\n%s", r, string(debug.Stack()))
		}
	}()
	p.Run(c)
	res.Done = true
	return
}

// WorkerMain: vcheck worker <id> <tier> <seed> <shard> <nshards> <ncases> <outfile> [race]
func WorkerMain(args []string) int {
	p := Get(args[0])
	tier := args[1]
	seed, _ := strconv.ParseInt(args[2], 10, 64)
	shard, _ := strconv.Atoi(args[3])
	nsh, _ := strconv.Atoi(args[4])
	ncases, _ := strconv.Atoi(args[5])
	out := args[6]
	race := len(args) > 7 && args[7] == "race"
	f, err := os.OpenFile(out, os.O_CREATE|os.O_WRONLY|os.O_APPEND, 0o644)
	if err != nil {
		fmt.Fprintln(os.Stderr, err)
		return 3
	}
	defer f.Close()
	for i := shard; i < ncases; i += nsh {
		fmt.Fprintf(f, "BEGIN %d\n", i)
		r := runOne(p, tier, seed, i, race, false)
		bz, err := json.Marshal(r)
		if err != nil {
			bz, _ = json.Marshal(CaseResult{Case: i, Err: "marshal: " + err.Error()})
		}
		f.Write(append(bz, '\n'))
	}
	fmt.Fprintf(f, "END\n")
	return 0
}

// ---------------------------------------------------------------------------------------------
// parent side

type finding struct {
	Property string `json:"property"`
	Rule     string `json:"rule"`
	Sig      string `json:"sig"`
	What     string `json:"what"`
}
type findingsFile struct {
	Findings []finding `json:"findings"`
	Fixed    []string  `json:"fixed"`
}

func verifDir() string {
	if d := os.Getenv("VERIF_DIR"); d != "" {
		return d
	}
	return "/verif"
}

func loadFindings() findingsFile {
	var ff findingsFile
	bz, err := os.ReadFile(filepath.Join(verifDir(), "known_findings.json"))
	if err == nil {
		json.Unmarshal(bz, &ff)
	}
	return ff
}

type Evidence struct {
	PropertyID  string                 `json:"property_id"`
	Tier        string                 `json:"tier"`
	Seed        int64                  `json:"seed"`
	Level       string                 `json:"level"`
	Coverage    map[string]interface{} `json:"coverage"`
	Assumptions []string               `json:"assumptions"`
	WallS       float64                `json:"wall_s"`
	Violations  int                    `json:"violations"`
	Verdict     string                 `json:"verdict"`
}

func nworkers() int {
	if s := os.Getenv("VERIF_WORKERS"); s != "" {
		if n, err := strconv.Atoi(s); err == nil && n > 0 {
			return n
		}
	}
	n := runtime.NumCPU()
	if n > 16 {
		n = 16
	}
	return n
}

type shardOut struct {
	results []CaseResult
	died    string // description if worker died without END
}

func readShard(path string) shardOut {
	var so shardOut
	f, err := os.Open(path)
	if err != nil {
		so.died = "no output file"
		return so
	}
	defer f.Close()
	sc := bufio.NewScanner(f)
	sc.Buffer(make([]byte, 1<<20), 1<<28)
	last := ""
	ended := false
	pendingBegin := ""
	for sc.Scan() {
		ln := sc.Text()
		if strings.HasPrefix(ln, "BEGIN ") {
			pendingBegin = ln
			continue
		}
		if ln == "END" {
			ended = true
			continue
		}
		var r CaseResult
		if err := json.Unmarshal([]byte(ln), &r); err == nil {
			so.results = append(so.results, r)
			pendingBegin = ""
		}
		last = ln
	}
	_ = last
	if !ended {
		so.died = "worker died; last " + pendingBegin
	}
	return so
}

func spawnWorkers(bin string, p *Property, tier string, seed int64, ncases int, race bool, outDir string, timeout time.Duration) ([]CaseResult, []string, []string) {
	if ncases == 0 {
		return nil, nil, nil
	}
	w := nworkers()
	if w > ncases {
		w = ncases
	}
	var wg sync.WaitGroup
	outs := make([]string, w)
	logs := make([]string, w)
	var problems []string
	var mu sync.Mutex
	suffix := ""
	if race {
		suffix = "-race"
	}
	raceLogBase := filepath.Join(outDir, "racelog"+suffix)
	for i := 0; i < w; i++ {
		outs[i] = filepath.Join(outDir, fmt.Sprintf("shard%s-%d.jsonl", suffix, i))
		logs[i] = filepath.Join(outDir, fmt.Sprintf("shard%s-%d.log", suffix, i))
		os.Remove(outs[i])
		wg.Add(1)
		go func(i int) {
			defer wg.Done()
			args := []string{"worker", p.ID, tier, strconv.FormatInt(seed, 10), strconv.Itoa(i), strconv.Itoa(w), strconv.Itoa(ncases), outs[i]}
			if race {
				args = append(args, "race")
			}
			cmd := exec.Command(bin, args...)
			cmd.Env = append(os.Environ(), "DBUS_SESSION_BUS_ADDRESS=unix:path=/nonexistent")
			if race {
				cmd.Env = append(cmd.Env, "GORACE=halt_on_error=0 exitcode=0 log_path="+raceLogBase)
			}
			lf, _ := os.Create(logs[i])
			cmd.Stdout = lf
			cmd.Stderr = lf
			if err := cmd.Start(); err != nil {
				mu.Lock()
				problems = append(problems, "start: "+err.Error())
				mu.Unlock()
				return
			}
			done := make(chan error, 1)
			go func() { done <- cmd.Wait() }()
			select {
			case err := <-done:
				if err != nil {
					mu.Lock()
					problems = append(problems, fmt.Sprintf("worker %d exit: %v (log %s)", i, err, logs[i]))
					mu.Unlock()
				}
			case <-time.After(timeout):
				cmd.Process.Signal(os.Interrupt)
				time.Sleep(200 * time.Millisecond)
				cmd.Process.Kill()
				<-done
				mu.Lock()
				problems = append(problems, fmt.Sprintf("worker %d watchdog after %s", i, timeout))
				mu.Unlock()
			}
			lf.Close()
		}(i)
	}
	wg.Wait()
	var all []CaseResult
	for i := 0; i < w; i++ {
		so := readShard(outs[i])
		all = append(all, so.results...)
		if so.died != "" {
			problems = append(problems, fmt.Sprintf("shard %d: %s", i, so.died))
		}
	}
	var raceLogs []string
	if race {
		m, _ := filepath.Glob(raceLogBase + ".*")
		raceLogs = m
	}
	return all, problems, raceLogs
}

// RunMain: vcheck run <id> <tier>. Returns the process exit code.
func RunMain(id, tier string) int {
	p := Get(id)
	if p == nil {
		fmt.Fprintf(os.Stderr, "unknown property %s\n", id)
		return 3
	}
	seed := int64(1)
	if s := os.Getenv("VERIF_SEED"); s != "" {
		if v, err := strconv.ParseInt(s, 10, 64); err == nil {
			seed = v
		}
	}
	start := time.Now()
	vd := verifDir()
	outDir := filepath.Join(vd, "out", id+"-"+tier)
	os.RemoveAll(outDir)
	os.MkdirAll(outDir, 0o755)
	os.MkdirAll(filepath.Join(vd, "out", "replays"), 0o755)
	os.MkdirAll(filepath.Join(vd, "evidence"), 0o755)
	self, _ := os.Executable()
	timeout := 40 * time.Minute
	if tier == "thorough" {
		timeout = 6 * time.Hour
	}
	n := p.Cases(tier)
	results, problems, _ := spawnWorkers(self, p, tier, seed, n, false, outDir, timeout)
	var raceReports []RaceReport
	nr := 0
	if p.RaceCases != nil {
		nr = p.RaceCases(tier)
	}
	if nr > 0 {
		rb := self + "-race"
		if _, err := os.Stat(rb); err != nil {
			problems = append(problems, "race binary missing: "+rb)
		} else {
			rr, pr, rlogs := spawnWorkers(rb, p, tier, seed, nr, true, outDir, timeout)
			results = append(results, rr...)
			problems = append(problems, pr...)
			raceReports = ParseRaceLogs(rlogs)
		}
	}
	return finish(p, tier, seed, n+nr, results, problems, raceReports, start)
}

func finish(p *Property, tier string, seed int64, planned int, results []CaseResult, problems []string, raceReports []RaceReport, start time.Time) int {
	vd := verifDir()
	ff := loadFindings()
	counters := map[string]int64{}
	distinct := map[string]bool{}
	var samples []interface{}
	nontrivial := 0
	done := 0
	type vrec struct {
		v    Violation
		c    CaseResult
		path string
	}
	var unknown []vrec
	known := map[string]int{}
	sort.Slice(results, func(i, j int) bool {
		if results[i].Race != results[j].Race {
			return !results[i].Race
		}
		return results[i].Case < results[j].Case
	})
	judge := func(r CaseResult) {
		for _, v := range r.Violations {
			matched := false
			for _, f := range ff.Findings {
				if f.Property == p.ID && f.Rule == v.Rule && f.Sig == v.Sig {
					known[f.Property+"|"+f.Rule+"|"+f.Sig+"|"+f.What]++
					matched = true
					break
				}
			}
			if !matched {
				unknown = append(unknown, vrec{v: v, c: r})
			}
		}
	}
	for _, r := range results {
		if r.Err != "" {
			problems = append(problems, fmt.Sprintf("case %d: %s", r.Case, firstLine(r.Err)))
			os.WriteFile(filepath.Join(vd, "out", p.ID+"-"+tier, fmt.Sprintf("harness-error-c%d.txt", r.Case)), []byte(r.Err), 0o644)
			// what the oracles had already established before the case died still stands (its
			// counters and coverage are not used)
			judge(r)
			continue
		}
		if r.Done {
			done++
		}
		for k, v := range r.Counters {
			counters[k] += v
		}
		for _, d := range r.Distinct {
			distinct[d] = true
		}
		if r.Nontrivial {
			nontrivial++
		}
		if r.Sample != nil && len(samples) < 3 {
			samples = append(samples, r.Sample)
		}
		judge(r)
	}
	// race reports attributed to mainchain code are violations; dependency races are listed only.
	depRaces := 0
	var depSamples []string
	for _, rr := range raceReports {
		if rr.InRepo {
			unknown = append(unknown, vrec{v: Violation{Rule: "data-race", Sig: rr.Key, Detail: rr.Text}, c: CaseResult{Case: -1, Race: true}})
		} else {
			depRaces++
			if len(depSamples) < 3 {
				depSamples = append(depSamples, rr.Key)
			}
		}
	}
	// replay files
	exit := 0
	printed := map[string]bool{}
	for i := range unknown {
		u := &unknown[i]
		name := fmt.Sprintf("%s-s%d-c%d", p.ID, seed, u.c.Case)
		if u.c.Race {
			name += "-race"
		}
		path := filepath.Join(vd, "out", "replays", name+".json")
		rep := map[string]interface{}{"property": p.ID, "tier": tier, "seed": seed, "case": u.c.Case, "race": u.c.Race, "violations": u.c.Violations, "first": u.v}
		bz, _ := json.MarshalIndent(rep, "", " ")
		os.WriteFile(path, bz, 0o644)
		u.path = path
		exit = 1
		key := u.v.Rule + "|" + u.v.Sig
		if !printed[key] || len(printed) < 5 {
			if !printed[path] {
				fmt.Printf("VIOLATION property=%s replay=%s\n", p.ID, path)
				printed[path] = true
			}
			if !printed[key] {
				fmt.Printf("  rule=%s sig=%s %s\n", u.v.Rule, u.v.Sig, u.v.Detail)
				printed[key] = true
			}
		}
	}
	var knownList []string
	for k, n := range known {
		parts := strings.SplitN(k, "|", 4)
		fmt.Printf("KNOWN-FINDING: property=%s %s [rule=%s sig=%s hits=%d]\n", parts[0], parts[3], parts[1], parts[2], n)
		knownList = append(knownList, fmt.Sprintf("%s/%s x%d", parts[1], parts[2], n))
	}
	sort.Strings(knownList)
	// inconclusive?
	verdict := "held"
	if exit == 1 {
		verdict = "violated"
	}
	var inconcl []string
	if done < planned {
		inconcl = append(inconcl, fmt.Sprintf("only %d of %d cases completed", done, planned))
	}
	for _, k := range p.Need {
		if counters[k] == 0 {
			inconcl = append(inconcl, "observed nothing for counter "+k)
		}
	}
	inconcl = append(inconcl, problems...)
	if exit == 0 && len(inconcl) > 0 {
		verdict = "inconclusive"
		exit = 2
	}
	// evidence
	dlist := make([]string, 0, len(distinct))
	for d := range distinct {
		dlist = append(dlist, d)
	}
	sort.Strings(dlist)
	dshow := dlist
	if len(dshow) > 40 {
		dshow = dshow[:40]
	}
	if len(samples) == 0 {
		samples = append(samples, "no sample recorded")
	}
	cov := map[string]interface{}{
		"evaluations":         done,
		"distinct_nontrivial": len(dlist),
		"nontrivial_cases":    nontrivial,
		"rule":                p.Rule,
		"samples":             samples,
		"counters":            counters,
		"distinct_sample":     dshow,
		"known_finding_hits":  knownList,
		"workers":             nworkers(),
	}
	if p.RaceCases != nil {
		cov["race_reports_total"] = len(raceReports)
		cov["dependency_races"] = depRaces
		cov["dependency_race_samples"] = depSamples
	}
	if len(inconcl) > 0 {
		cov["inconclusive_reasons"] = inconcl
	}
	assumptions := p.Assumptions
	if assumptions == nil {
		assumptions = []string{}
	}
	if depSamples == nil {
		depSamples = []string{}
	}
	ev := Evidence{PropertyID: p.ID, Tier: tier, Seed: seed, Level: p.Level, Coverage: cov, Assumptions: assumptions,
		WallS: time.Since(start).Seconds(), Violations: len(unknown), Verdict: verdict}
	bz, _ := json.MarshalIndent(ev, "", " ")
	os.WriteFile(filepath.Join(vd, "evidence", p.ID+".json"), append(bz, '\n'), 0o644)
	fmt.Printf("%s %s seed=%d: verdict=%s cases=%d/%d distinct=%d nontrivial=%d violations=%d known=%d wall=%.1fs\n",
		p.ID, tier, seed, verdict, done, planned, len(dlist), nontrivial, len(unknown), len(known), time.Since(start).Seconds())
	if verdict == "inconclusive" {
		for _, s := range inconcl {
			fmt.Println("  inconclusive:", s)
		}
	}
	return exit
}

func firstLine(s string) string {
	if i := strings.IndexByte(s, '\n'); i >= 0 {
		return s[:i]
	}
	return s
}

// ReplayMain re-executes the case recorded in a replay file against the current /repo build.
func ReplayMain(path string) int {
	bz, err := os.ReadFile(path)
	if err != nil {
		fmt.Fprintln(os.Stderr, err)
		return 3
	}
	var rep struct {
		Property string `json:"property"`
		Tier     string `json:"tier"`
		Seed     int64  `json:"seed"`
		Case     int    `json:"case"`
		Race     bool   `json:"race"`
	}
	if err := json.Unmarshal(bz, &rep); err != nil {
		fmt.Fprintln(os.Stderr, err)
		return 3
	}
	return RunCaseMain(rep.Property, rep.Tier, rep.Seed, rep.Case, rep.Race)
}

// RunCaseMain runs a single case verbosely in this process.
func RunCaseMain(id, tier string, seed int64, idx int, race bool) int {
	p := Get(id)
	if p == nil {
		fmt.Fprintln(os.Stderr, "unknown property", id)
		return 3
	}
	if idx < 0 {
		fmt.Println("race report: re-run the race tier of the check to reproduce")
		return 0
	}
	r := runOne(p, tier, seed, idx, race, true)
	bz, _ := json.MarshalIndent(r, "", " ")
	fmt.Println(string(bz))
	if r.Err != "" {
		return 2
	}
	if len(r.Violations) > 0 {
		return 1
	}
	return 0
}
