package fw

import (
	"os"
	"regexp"
	"sort"
	"strings"
)

// RaceReport is one deduplicated "WARNING: DATA RACE" block.
type RaceReport struct {
	Key    string // innermost non-runtime frames of the two racing accesses, line numbers stripped
	InRepo bool   // attributed to mainchain code (see ParseRaceLogs)
	Text   string
}

var accessHdr = regexp.MustCompile(`^(Read|Write|Previous read|Previous write|Atomic read|Atomic write|Previous atomic read|Previous atomic write) at 0x[0-9a-f]+ by `)

func repoPrefixes() []string {
	ps := []string{"/repo/", "github.com/unification-com/mainchain"}
	if r := os.Getenv("VERIF_REPO"); r != "" {
		ps = append(ps, strings.TrimRight(r, "/")+"/")
	}
	return ps
}

func isRepoFrame(fn, file string) bool {
	for _, pre := range repoPrefixes() {
		if strings.HasPrefix(file, pre) || strings.HasPrefix(fn, pre) {
			return true
		}
	}
	return false
}

// ParseRaceLogs applies the attribution rule of DESIGN.md section 2: a report is mainchain's when
// the innermost non-runtime frame of either racing access is mainchain code, or when BOTH racing
// access stacks pass through mainchain code (two mainchain call paths touching shared state through
// a dependency). A race both of whose accesses are reached without mainchain code on at least one
// side and whose innermost frames are dependency code is a dependency race: listed, never judged.
func ParseRaceLogs(paths []string) []RaceReport {
	seen := map[string]*RaceReport{}
	for _, p := range paths {
		bz, err := os.ReadFile(p)
		if err != nil {
			continue
		}
		blocks := strings.Split(string(bz), "WARNING: DATA RACE")
		for _, b := range blocks[1:] {
			if i := strings.Index(b, "=================="); i >= 0 {
				b = b[:i]
			}
			lines := strings.Split(b, "\n")
			var tops []string
			innermostRepo := false
			stacksWithRepo := 0
			nstacks := 0
			for i := 0; i < len(lines); i++ {
				if !accessHdr.MatchString(strings.TrimSpace(lines[i])) {
					continue
				}
				nstacks++
				first := true
				hasRepo := false
				for j := i + 1; j+1 < len(lines); j += 2 {
					fn := strings.TrimSpace(lines[j])
					file := strings.TrimSpace(lines[j+1])
					if fn == "" {
						break
					}
					if strings.HasPrefix(fn, "runtime.") || strings.HasPrefix(fn, "sync/atomic.") || strings.HasPrefix(fn, "sync.") {
						continue
					}
					// frames below the harness driver are stale shadow-stack garbage, not callers
					if strings.HasPrefix(fn, "verifharness/") || strings.HasPrefix(fn, "main.") || strings.HasPrefix(fn, "testing.") {
						break
					}
					name := fn
					if k := strings.Index(name, "("); k > 0 {
						name = name[:k]
					}
					r := isRepoFrame(fn, file)
					if first {
						tops = append(tops, name)
						if r {
							innermostRepo = true
						}
						first = false
					}
					if r {
						hasRepo = true
					}
				}
				if hasRepo {
					stacksWithRepo++
				}
			}
			sort.Strings(tops)
			key := strings.Join(tops, " <> ")
			if _, ok := seen[key]; !ok {
				txt := b
				if len(txt) > 4000 {
					txt = txt[:4000]
				}
				seen[key] = &RaceReport{Key: key, InRepo: innermostRepo || (nstacks >= 2 && stacksWithRepo >= 2), Text: txt}
			}
		}
	}
	var out []RaceReport
	for _, r := range seen {
		out = append(out, *r)
	}
	sort.Slice(out, func(i, j int) bool { return out[i].Key < out[j].Key })
	return out
}
