package fw

import (
	"time"

	"github.com/anishathalye/porcupine"
)

// HeightOp is one operation on the "committed height" register: a commit (write) or a query that
// reported the height it was served at (read).
type HeightOp struct {
	Client int
	Write  bool
	Height int64
	Call   int64
	Return int64
}

// CheckHeightRegister checks the history for linearizability against a sequential register
// (porcupine). Returns "ok", "illegal" or "unknown" (checker timeout: inconclusive).
func CheckHeightRegister(ops []HeightOp, timeout time.Duration) string {
	type in struct {
		write bool
		h     int64
	}
	model := porcupine.Model{
		Init: func() interface{} { return int64(-1) },
		Step: func(st, input, output interface{}) (bool, interface{}) {
			i := input.(in)
			if i.write {
				return true, i.h
			}
			cur := st.(int64)
			return cur == -1 || output.(int64) == cur, st
		},
		Equal: func(a, b interface{}) bool { return a.(int64) == b.(int64) },
	}
	var pops []porcupine.Operation
	for _, o := range ops {
		pops = append(pops, porcupine.Operation{ClientId: o.Client, Input: in{o.Write, o.Height}, Call: o.Call, Output: o.Height, Return: o.Return})
	}
	switch porcupine.CheckOperationsTimeout(model, pops, timeout) {
	case porcupine.Ok:
		return "ok"
	case porcupine.Illegal:
		return "illegal"
	}
	return "unknown"
}
