package fw

import (
	"hash/fnv"
	"math/big"
)

// Rand is a small deterministic PRNG (splitmix64). Case i of property P under seed S always sees
// the same stream: NewRand(Mix(S, P, i)).
type Rand struct{ s uint64 }

func NewRand(seed uint64) *Rand { return &Rand{s: seed} }

func Mix(seed int64, prop string, idx int) uint64 {
	h := fnv.New64a()
	h.Write([]byte(prop))
	x := uint64(seed)*0x9E3779B97F4A7C15 ^ h.Sum64() ^ (uint64(idx)+1)*0xBF58476D1CE4E5B9
	r := Rand{s: x}
	r.U64()
	return r.U64()
}

func (r *Rand) U64() uint64 {
	r.s += 0x9E3779B97F4A7C15
	z := r.s
	z = (z ^ (z >> 30)) * 0xBF58476D1CE4E5B9
	z = (z ^ (z >> 27)) * 0x94D049BB133111EB
	return z ^ (z >> 31)
}

func (r *Rand) Intn(n int) int {
	if n <= 0 {
		return 0
	}
	return int(r.U64() % uint64(n))
}
func (r *Rand) Int63() int64         { return int64(r.U64() >> 1) }
func (r *Rand) Bool() bool           { return r.U64()&1 == 1 }
func (r *Rand) Chance(p int) bool    { return r.Intn(100) < p } // p percent
func (r *Rand) Range(lo, hi int) int { return lo + r.Intn(hi-lo+1) }
func (r *Rand) Fork() *Rand          { return NewRand(r.U64()) }

// Weighted returns an index chosen proportionally to w.
func (r *Rand) Weighted(w []int) int {
	t := 0
	for _, x := range w {
		t += x
	}
	if t <= 0 {
		return 0
	}
	k := r.Intn(t)
	for i, x := range w {
		if k < x {
			return i
		}
		k -= x
	}
	return len(w) - 1
}

// BigBits returns a uniformly random non-negative integer below 2^bits.
func (r *Rand) BigBits(bits int) *big.Int {
	if bits <= 0 {
		return big.NewInt(0)
	}
	n := (bits + 63) / 64
	x := new(big.Int)
	for i := 0; i < n; i++ {
		x.Lsh(x, 64)
		x.Or(x, new(big.Int).SetUint64(r.U64()))
	}
	m := new(big.Int).Lsh(big.NewInt(1), uint(bits))
	return x.Mod(x, m)
}

// BigLog returns a random integer whose bit length is uniform in [1, maxBits]: covers magnitudes.
func (r *Rand) BigLog(maxBits int) *big.Int {
	b := r.Range(1, maxBits)
	x := r.BigBits(b)
	x.SetBit(x, b-1, 1)
	return x
}

func (r *Rand) PickU64(xs []uint64) uint64 { return xs[r.Intn(len(xs))] }
func (r *Rand) PickStr(xs []string) string { return xs[r.Intn(len(xs))] }
