package props

import (
	"fmt"
	"strings"
	"time"

	"cosmossdk.io/math"
	sdk "github.com/cosmos/cosmos-sdk/types"
	"github.com/cosmos/cosmos-sdk/x/authz"
	banktypes "github.com/cosmos/cosmos-sdk/x/bank/types"
	"github.com/cosmos/cosmos-sdk/x/feegrant"
	govv1 "github.com/cosmos/cosmos-sdk/x/gov/types/v1"
	stakingtypes "github.com/cosmos/cosmos-sdk/x/staking/types"

	"verifharness/fw"
	"verifharness/lab"

	beacontypes "github.com/unification-com/mainchain/x/beacon/types"
	enttypes "github.com/unification-com/mainchain/x/enterprise/types"
	streamtypes "github.com/unification-com/mainchain/x/stream/types"
	wrkchaintypes "github.com/unification-com/mainchain/x/wrkchain/types"
)

func newSubmitProposal(msgs []sdk.Msg, proposer string) (sdk.Msg, error) {
	return govv1.NewMsgSubmitProposal(msgs, lab.Nund(1000), proposer, "", "t", "s")
}
func newVote(voter sdk.AccAddress, pid uint64) sdk.Msg {
	return govv1.NewMsgVote(voter, pid, govv1.OptionYes, "")
}

// RandOptions draws a genesis parameter set. Signers are accounts 0..ns-1 (no duplicates).
func RandOptions(r *fw.Rand) lab.Options {
	o := lab.DefaultOptions()
	o.NAccts = r.Range(6, 9)
	kinds := []string{"delayed", "continuous", "periodic", "permlocked"}
	o.Kinds = map[int]string{}
	nk := r.Range(1, 3)
	for i := 0; i < nk; i++ {
		o.Kinds[r.Range(2, o.NAccts-1)] = kinds[r.Intn(len(kinds))]
	}
	ns := r.Range(1, 3)
	var signers []string
	for i := 0; i < ns; i++ {
		signers = append(signers, lab.NewAcct(i).Addr.String())
	}
	o.Ent = enttypes.Params{EntSigners: strings.Join(signers, ","), Denom: lab.Denom, MinAccepts: uint64(r.Range(1, ns)), DecisionTimeLimit: uint64(r.PickU64([]uint64{5, 20, 100, 1000, 5, 20, 100, 1000, 5, 20, 100, 1000, ^uint64(0), 1<<63 + 5}))}
	fee := func() uint64 { return r.PickU64([]uint64{1, 7, 10, 100, 1000, 25_000}) }
	lim := func() (uint64, uint64) {
		d := r.PickU64([]uint64{1, 2, 3, 5})
		return d, d + r.PickU64([]uint64{0, 1, 2, 4, 10})
	}
	d, m := lim()
	wd := lab.Denom
	bd := lab.Denom
	o.Wrk = wrkchaintypes.NewParams(fee(), fee(), fee(), wd, d, m)
	d, m = lim()
	o.Beacon = beacontypes.NewParams(fee(), fee(), fee(), bd, d, m)
	vf := []string{"0", "0.000000000000000001", "0.01", "0.333333333333333333", "0.999999999999999999", "1", "0.24"}
	o.Stream = streamtypes.Params{ValidatorFee: sdk.MustNewDecFromStr(vf[r.Intn(len(vf))])}
	ids := []uint64{1, 1, 2, 3, 1000, 1<<32 + 5} // small ids other than 1: counters that are re-derived from counts collide soon
	o.PoStartID = ids[r.Intn(len(ids))]
	o.WrkStartID = ids[r.Intn(len(ids))]
	o.BeaconStartID = ids[r.Intn(len(ids))]
	nw := r.Range(1, 3)
	for i := 0; i < nw; i++ {
		o.Whitelist = append(o.Whitelist, r.Range(1, o.NAccts-1))
	}
	o.Whitelist = dedupInts(o.Whitelist)
	return o
}

func dedupInts(xs []int) []int {
	seen := map[int]bool{}
	var out []int
	for _, x := range xs {
		if !seen[x] {
			seen[x] = true
			out = append(out, x)
		}
	}
	return out
}

// Gen produces transaction plans from the current observed state.
type Gen struct {
	E *Env
	// authz grants in force: granter index -> grantee indices (generic grants for the msg type)
	grants map[string]bool
	monik  int
	tsid   uint64
	// SeqHeights: WRKChain heights are mostly consecutive (several chains then share height values)
	SeqHeights bool
	// NoGovTarget: hostile transfers are aimed at the blocked module accounts only, never at gov
	NoGovTarget bool
}

func NewGen(e *Env) *Gen { return &Gen{E: e, grants: map[string]bool{}} }

func (g *Gen) acct(i int) lab.Acct { return g.E.L.Accts[i%len(g.E.L.Accts)] }
func (g *Gen) randAcct() lab.Acct  { return g.E.L.Accts[g.E.R.Intn(len(g.E.L.Accts))] }
func (g *Gen) acctByAddr(addr string) (lab.Acct, bool) {
	for _, a := range g.E.L.Accts {
		if strings.EqualFold(a.Addr.String(), addr) {
			return a, true
		}
	}
	return lab.Acct{}, false
}

// spell returns the canonical or (sometimes) the all-uppercase spelling of an address.
func (g *Gen) spell(a lab.Acct, pctUpper int) string {
	if g.E.R.Chance(pctUpper) {
		return a.Upper()
	}
	return a.Addr.String()
}

func (g *Gen) plan(signer lab.Acct, fee sdk.Coins, msgs ...sdk.Msg) *TxPlan {
	return &TxPlan{Spec: lab.TxSpec{Msgs: msgs, Signers: []lab.Acct{signer}, Fee: fee}, Desc: fmt.Sprintf("%s by a%d fee=%s", descMsgs(msgs), g.idx(signer), fee)}
}

func (g *Gen) idx(a lab.Acct) int {
	for i, x := range g.E.L.Accts {
		if x.Addr.Equals(a.Addr) {
			return i
		}
	}
	return -1
}

// ---- WRKChain / BEACON ----

func (g *Gen) hash(n int) string {
	const hexd = "0123456789abcdef"
	b := make([]byte, n)
	for i := range b {
		b[i] = hexd[g.E.R.Intn(16)]
	}
	return string(b)
}

func (g *Gen) hashLen() int { return []int{1, 8, 64, 65, 66, 66, 32}[g.E.R.Intn(7)] }

func (g *Gen) WrkRegisterMsg(owner lab.Acct) *wrkchaintypes.MsgRegisterWrkChain {
	g.monik++
	mon := fmt.Sprintf("wc%d-%s", g.monik, g.hash(4))
	name := "name-" + g.hash(g.E.R.Range(0, 20))
	switch g.E.R.Intn(10) {
	case 0:
		mon = strings.Repeat("m", 64)
	case 1:
		name = strings.Repeat("n", 128)
	case 2: // surrounding white space is content too: "exactly the submitted moniker, name"
		mon = []string{mon + " ", " " + mon, mon + "\n", "\t" + mon}[g.E.R.Intn(4)]
	case 3:
		name = []string{name + " ", " " + name, name + "\n", " "}[g.E.R.Intn(4)]
	case 4: // monikers are free text, not unique, and case matters
		mon = []string{"acme", "Acme", "ACME", "acme"}[g.E.R.Intn(4)]
	case 5: // only the moniker is mandatory
		name = ""
	}
	if g.E.R.Chance(12) {
		return &wrkchaintypes.MsgRegisterWrkChain{Moniker: mon, Name: name, GenesisHash: "", BaseType: "", Owner: g.spell(owner, 10)}
	}
	return &wrkchaintypes.MsgRegisterWrkChain{Moniker: mon, Name: name, GenesisHash: g.hash(g.hashLen()), BaseType: []string{"geth", "cosmos", ""}[g.E.R.Intn(3)], Owner: g.spell(owner, 10)}
}

func (g *Gen) BeaconRegisterMsg(owner lab.Acct) *beacontypes.MsgRegisterBeacon {
	g.monik++
	mon := fmt.Sprintf("bc%d-%s", g.monik, g.hash(4))
	name := "name-" + g.hash(g.E.R.Range(0, 20))
	switch g.E.R.Intn(10) {
	case 0:
		mon = strings.Repeat("b", 64)
	case 1:
		name = strings.Repeat("n", 128)
	case 2:
		mon = []string{mon + " ", " " + mon, mon + "\n", "\t" + mon}[g.E.R.Intn(4)]
	case 3:
		name = []string{name + " ", " " + name, name + "\n", " "}[g.E.R.Intn(4)]
	case 4:
		mon = []string{"acme", "Acme", "ACME", "acme"}[g.E.R.Intn(4)]
	case 5:
		name = ""
	}
	return &beacontypes.MsgRegisterBeacon{Moniker: mon, Name: name, Owner: g.spell(owner, 10)}
}

// wrkHeight picks a height relative to the last recorded one: mostly next/gaps, sometimes stale.
func (g *Gen) wrkHeight(last uint64) uint64 {
	r := g.E.R
	w := []int{50, 20, 8, 8, 4, 2, 2}
	if g.SeqHeights {
		w = []int{86, 2, 5, 5, 0, 1, 1}
	}
	switch r.Weighted(w) {
	case 0:
		return last + 1
	case 1:
		return last + uint64(r.Range(2, 50))
	case 2:
		return last // equal: must be rejected
	case 3:
		if last > 1 {
			return uint64(r.Range(1, int(minU64(last-1, 1<<30)))) // lower: must be rejected
		}
		return last + 1
	case 4:
		return last + 1<<40
	case 5:
		if last < 1<<63 {
			return 1 << 63
		}
		return last
	default:
		if last < ^uint64(0)-1 && r.Chance(30) {
			return ^uint64(0) - 1
		}
		if last < ^uint64(0) && r.Chance(30) {
			return ^uint64(0) // the largest height: everything afterwards must be rejected
		}
		return last + 3
	}
}

func minU64(a, b uint64) uint64 {
	if a < b {
		return a
	}
	return b
}

func (g *Gen) WrkRecordMsg(id uint64, last uint64, owner lab.Acct) *wrkchaintypes.MsgRecordWrkChainBlock {
	r := g.E.R
	m := &wrkchaintypes.MsgRecordWrkChainBlock{WrkchainId: id, Height: g.wrkHeight(last), BlockHash: g.hash(g.hashLen()), Owner: g.spell(owner, 8)}
	if r.Chance(60) {
		m.ParentHash = g.hash(g.hashLen())
	}
	if r.Chance(30) {
		m.Hash1 = g.hash(g.hashLen())
		m.Hash2 = g.hash(g.hashLen())
	}
	if r.Chance(15) {
		m.Hash3 = g.hash(66)
	}
	return m
}

func (g *Gen) BeaconRecordMsg(id uint64, owner lab.Acct) *beacontypes.MsgRecordBeaconTimestamp {
	g.tsid++
	st := uint64(g.E.L.Time.Unix()) - uint64(g.E.R.Intn(1000))
	if g.E.R.Chance(10) {
		st = g.E.R.PickU64([]uint64{0, 1, 1 << 32, 1<<63 + 7, ^uint64(0)}) // 0 must be rejected (it would be replaced by the wall clock)
	}
	h := g.hash(g.hashLen())
	if g.E.R.Chance(15) { // the 0x notation clients use: well-formed hex of even length, bare "0x", odd length
		h = "0x" + g.hash([]int{0, 2, 8, 64, 7}[g.E.R.Intn(5)])
		if g.E.R.Chance(40) {
			st = 0
		}
	}
	return &beacontypes.MsgRecordBeaconTimestamp{BeaconId: id, Hash: h, SubmitTime: st, Owner: g.spell(owner, 8)}
}

// slots picks a purchase count around what is left to buy.
func (g *Gen) slots(limit, max uint64) uint64 {
	r := g.E.R
	left := uint64(0)
	if max > limit {
		left = max - limit
	}
	switch r.Weighted([]int{40, 20, 15, 10, 5, 5, 5}) {
	case 0:
		return 1
	case 1:
		if left > 0 {
			return left
		}
		return 1
	case 2:
		return left + 1
	case 3:
		if left > 1 {
			return uint64(r.Range(1, int(minU64(left, 1000))))
		}
		return 2
	case 4:
		return 1 << 63
	case 5:
		return ^uint64(0) - uint64(r.Intn(8)) // wraps limit+n
	default:
		return ^uint64(0) - limit + uint64(r.Range(1, 3)) // limit+n wraps to a small value
	}
}

// wrkFee returns the exact fee for the WRKChain/BEACON leaves of msgs under current params, and
// sometimes a perturbed one.
func (g *Gen) moduleFee(o *lab.Obs, msgs []sdk.Msg, exactPct int) sdk.Coins {
	leaves, _ := Flatten(msgs)
	fee := sdk.NewCoins()
	for _, m := range leaves {
		switch x := m.(type) {
		case *wrkchaintypes.MsgRegisterWrkChain:
			fee = fee.Add(sdk.NewCoin(o.WrkParams.Denom, math.NewIntFromUint64(o.WrkParams.FeeRegister)))
		case *wrkchaintypes.MsgRecordWrkChainBlock:
			fee = fee.Add(sdk.NewCoin(o.WrkParams.Denom, math.NewIntFromUint64(o.WrkParams.FeeRecord)))
		case *wrkchaintypes.MsgPurchaseWrkChainStateStorage:
			fee = fee.Add(sdk.NewCoin(o.WrkParams.Denom, math.NewIntFromUint64(o.WrkParams.FeePurchaseStorage).Mul(math.NewIntFromUint64(minU64(x.Number, 1<<20)))))
		case *beacontypes.MsgRegisterBeacon:
			fee = fee.Add(sdk.NewCoin(o.BeaconParams.Denom, math.NewIntFromUint64(o.BeaconParams.FeeRegister)))
		case *beacontypes.MsgRecordBeaconTimestamp:
			fee = fee.Add(sdk.NewCoin(o.BeaconParams.Denom, math.NewIntFromUint64(o.BeaconParams.FeeRecord)))
		case *beacontypes.MsgPurchaseBeaconStateStorage:
			fee = fee.Add(sdk.NewCoin(o.BeaconParams.Denom, math.NewIntFromUint64(o.BeaconParams.FeePurchaseStorage).Mul(math.NewIntFromUint64(minU64(x.Number, 1<<20)))))
		}
	}
	r := g.E.R
	if r.Chance(exactPct) {
		return fee
	}
	switch r.Intn(5) {
	case 0:
		return sdk.NewCoins()
	case 1:
		return fee.Add(sdk.NewInt64Coin(lab.Denom, int64(r.Range(1, 5000))))
	case 2:
		return fee.Add(sdk.NewInt64Coin(lab.Denom2, int64(r.Range(1, 50))))
	case 3:
		if len(fee) > 0 && fee[0].Amount.GT(math.OneInt()) {
			return sdk.NewCoins(sdk.NewCoin(fee[0].Denom, fee[0].Amount.QuoRaw(2)))
		}
		return fee
	default:
		return sdk.NewCoins(sdk.NewInt64Coin(lab.Denom2, int64(r.Range(1, 50))))
	}
}

// WrkBeaconTx generates one WRKChain/BEACON transaction (1–3 messages) against observed state.
// nonOwnerPct: how often a non-owner tries.
func (g *Gen) WrkBeaconTx(o *lab.Obs, nonOwnerPct, exactFeePct int) *TxPlan {
	r := g.E.R
	// register + use the id that registration will receive in the same tx, optionally followed by a
	// failing message so that the whole tx (incl. the id assignment) rolls back and the id is handed
	// to the next registrant
	if r.Chance(7) {
		signer := g.randAcct()
		var msgs []sdk.Msg
		if r.Bool() {
			msgs = []sdk.Msg{g.WrkRegisterMsg(signer), g.WrkRecordMsg(o.NextWrk, 0, signer)}
			if r.Chance(60) {
				msgs = append(msgs, &wrkchaintypes.MsgPurchaseWrkChainStateStorage{WrkchainId: o.NextWrk, Number: 1, Owner: signer.Addr.String()})
			}
			if r.Chance(55) {
				msgs = append(msgs, &wrkchaintypes.MsgRecordWrkChainBlock{WrkchainId: o.NextWrk + 77, Height: 1, BlockHash: "f", Owner: signer.Addr.String()})
			}
		} else {
			msgs = []sdk.Msg{g.BeaconRegisterMsg(signer), g.BeaconRecordMsg(o.NextBeacon, signer)}
			if r.Chance(60) {
				msgs = append(msgs, &beacontypes.MsgPurchaseBeaconStateStorage{BeaconId: o.NextBeacon, Number: 1, Owner: signer.Addr.String()})
			}
			if r.Chance(55) {
				msgs = append(msgs, &beacontypes.MsgRecordBeaconTimestamp{BeaconId: o.NextBeacon + 77, Hash: "f", SubmitTime: 5, Owner: signer.Addr.String()})
			}
		}
		for _, m := range msgs {
			setOwner(m, signer, g)
		}
		return g.plan(signer, g.moduleFee(o, msgs, exactFeePct), msgs...)
	}
	nm := r.Weighted([]int{70, 20, 10}) + 1
	var msgs []sdk.Msg
	var signer lab.Acct
	haveSigner := false
	pickSigner := func(owner string) lab.Acct {
		if haveSigner {
			return signer
		}
		a, ok := g.acctByAddr(owner)
		if !ok || r.Chance(nonOwnerPct) {
			a = g.randAcct()
		}
		signer = a
		haveSigner = true
		return a
	}
	for i := 0; i < nm; i++ {
		useWrk := r.Bool()
		nReg := len(o.Wrk)
		if !useWrk {
			nReg = len(o.Beacons)
		}
		kind := r.Weighted([]int{15, 60, 25}) // register, record, purchase
		if nReg == 0 || (nReg < 5 && r.Chance(15)) {
			kind = 0
		}
		if nReg >= 6 && kind == 0 {
			kind = 1
		}
		switch {
		case kind == 0 && useWrk:
			if !haveSigner {
				signer, haveSigner = g.randAcct(), true
			}
			msgs = append(msgs, g.WrkRegisterMsg(signer))
		case kind == 0:
			if !haveSigner {
				signer, haveSigner = g.randAcct(), true
			}
			msgs = append(msgs, g.BeaconRegisterMsg(signer))
		case useWrk:
			w := o.Wrk[r.Intn(len(o.Wrk))]
			id := w.WrkchainId
			if r.Chance(4) {
				id = o.NextWrk + uint64(r.Intn(3)) // unknown id
			}
			s := pickSigner(w.Owner)
			if kind == 1 {
				msgs = append(msgs, g.WrkRecordMsg(id, w.Lastblock, s))
			} else {
				msgs = append(msgs, &wrkchaintypes.MsgPurchaseWrkChainStateStorage{WrkchainId: id, Number: g.slots(o.WrkLimit[w.WrkchainId], o.WrkParams.MaxStorageLimit), Owner: g.spell(s, 8)})
			}
		default:
			b := o.Beacons[r.Intn(len(o.Beacons))]
			id := b.BeaconId
			if r.Chance(4) {
				id = o.NextBeacon + uint64(r.Intn(3))
			}
			s := pickSigner(b.Owner)
			if kind == 1 {
				msgs = append(msgs, g.BeaconRecordMsg(id, s))
			} else {
				msgs = append(msgs, &beacontypes.MsgPurchaseBeaconStateStorage{BeaconId: id, Number: g.slots(o.BeaconLimit[b.BeaconId], o.BeaconParams.MaxStorageLimit), Owner: g.spell(s, 8)})
			}
		}
	}
	// all messages of one tx must name the same signer (single-signer txs): rewrite owners
	for _, m := range msgs {
		setOwner(m, signer, g)
	}
	return g.plan(signer, g.moduleFee(o, msgs, exactFeePct), msgs...)
}

func setOwner(m sdk.Msg, a lab.Acct, g *Gen) {
	s := g.spell(a, 8)
	switch x := m.(type) {
	case *wrkchaintypes.MsgRegisterWrkChain:
		x.Owner = s
	case *wrkchaintypes.MsgRecordWrkChainBlock:
		x.Owner = s
	case *wrkchaintypes.MsgPurchaseWrkChainStateStorage:
		x.Owner = s
	case *beacontypes.MsgRegisterBeacon:
		x.Owner = s
	case *beacontypes.MsgRecordBeaconTimestamp:
		x.Owner = s
	case *beacontypes.MsgPurchaseBeaconStateStorage:
		x.Owner = s
	}
}

// ---- authz ----

// GrantPlan: granter lets grantee execute msgs of the given type URL.
func (g *Gen) GrantPlan(granter, grantee lab.Acct, typeURL string) *TxPlan {
	exp := lab.StartTime.Add(10000 * time.Hour)
	m, err := authz.NewMsgGrant(granter.Addr, grantee.Addr, authz.NewGenericAuthorization(typeURL), &exp)
	if err != nil {
		panic(err)
	}
	g.grants[granter.Addr.String()+">"+grantee.Addr.String()+">"+typeURL] = true
	return &TxPlan{Spec: lab.TxSpec{Msgs: []sdk.Msg{m}, Signers: []lab.Acct{granter}}, Desc: fmt.Sprintf("Grant(a%d->a%d,%s)", g.idx(granter), g.idx(grantee), typeURL[strings.LastIndexByte(typeURL, '.')+1:])}
}

// WrapExec wraps msgs (all signed-for by `granter`) into MsgExec executed by grantee, depth times.
func WrapExec(grantee lab.Acct, msgs []sdk.Msg, depth int) sdk.Msg {
	cur := msgs
	var ex authz.MsgExec
	for d := 0; d < depth; d++ {
		ex = authz.NewMsgExec(grantee.Addr, cur)
		e2 := ex
		cur = []sdk.Msg{&e2}
	}
	return cur[0]
}

// EnsureGrants returns the grant txs still needed so that grantee may exec every leaf of msgs on
// behalf of granter.
func (g *Gen) EnsureGrants(granter, grantee lab.Acct, msgs []sdk.Msg) []*TxPlan {
	var out []*TxPlan
	leaves, _ := Flatten(msgs)
	for _, m := range leaves {
		u := sdk.MsgTypeURL(m)
		k := granter.Addr.String() + ">" + grantee.Addr.String() + ">" + u
		if !g.grants[k] {
			out = append(out, g.GrantPlan(granter, grantee, u))
		}
	}
	return out
}

// ---- enterprise ----

func (g *Gen) signers(o *lab.Obs) []lab.Acct {
	var out []lab.Acct
	for _, s := range strings.Split(o.EntParams.EntSigners, ",") {
		if a, ok := g.acctByAddr(s); ok {
			out = append(out, a)
		}
	}
	return out
}

func (g *Gen) EntTx(o *lab.Obs, hostilePct int) *TxPlan {
	r := g.E.R
	sg := g.signers(o)
	pickSigner := func() lab.Acct {
		if len(sg) == 0 || r.Chance(hostilePct) {
			return g.randAcct()
		}
		return sg[r.Intn(len(sg))]
	}
	var raised []enttypes.EnterpriseUndPurchaseOrder
	for _, po := range o.POs {
		if po.Status == enttypes.StatusRaised {
			raised = append(raised, po)
		}
	}
	kind := r.Weighted([]int{20, 30, 50})
	if len(raised) == 0 && kind == 2 {
		if len(o.AcceptedQ) > 0 {
			raised = append(raised, findPO(o, o.AcceptedQ[0]))
		} else {
			kind = 1
		}
	}
	if len(o.Whitelist) == 0 {
		kind = 0
	}
	switch kind {
	case 0: // whitelist
		s := pickSigner()
		target := g.randAcct()
		act := enttypes.WhitelistActionAdd
		if r.Chance(25) {
			act = enttypes.WhitelistActionRemove
			if len(o.Whitelist) > 0 && r.Chance(80) {
				if a, ok := g.acctByAddr(o.Whitelist[r.Intn(len(o.Whitelist))]); ok {
					target = a
					if r.Chance(30) { // a whitelisted account tries to take itself off the list
						s = a
					}
				}
			}
		}
		m := &enttypes.MsgWhitelistAddress{Address: g.spell(target, 10), Signer: g.spell(s, 10), Action: act}
		return g.plan(s, nil, m)
	case 1: // raise
		var p lab.Acct
		if len(o.Whitelist) > 0 && !r.Chance(hostilePct) {
			p, _ = g.acctByAddr(o.Whitelist[r.Intn(len(o.Whitelist))])
		} else {
			p = g.randAcct()
		}
		if p.Addr == nil {
			p = g.randAcct()
		}
		denom := o.EntParams.Denom
		if r.Chance(6) {
			denom = lab.Denom2
		}
		amt := math.NewInt(int64(r.PickU64([]uint64{1, 10, 999, 5000, 1_000_000, 123_456_789_012})))
		m := &enttypes.MsgUndPurchaseOrder{Purchaser: g.spell(p, 10), Amount: sdk.NewCoin(denom, amt)}
		return g.plan(p, nil, m)
	default: // decide
		po := raised[r.Intn(len(raised))]
		id := po.Id
		if r.Chance(5) {
			id = o.NextPO + uint64(r.Intn(2))
		}
		if r.Chance(5) && len(o.POs) > 0 {
			id = o.POs[r.Intn(len(o.POs))].Id // possibly a terminal order
		}
		if r.Chance(15) && len(o.AcceptedQ) > 0 {
			id = o.AcceptedQ[r.Intn(len(o.AcceptedQ))] // an order in its one-block accepted state
		}
		s := pickSigner()
		dec := enttypes.StatusAccepted
		if r.Chance(35) {
			dec = enttypes.StatusRejected
		}
		m := &enttypes.MsgProcessUndPurchaseOrder{PurchaseOrderId: id, Decision: dec, Signer: g.spell(s, 25)}
		return g.plan(s, nil, m)
	}
}

// ---- stream ----

func (g *Gen) StreamTx(o *lab.Obs, hostilePct int, denoms []string) *TxPlan {
	r := g.E.R
	kind := r.Weighted([]int{20, 30, 20, 15, 15}) // create, claim, topup, rate, cancel
	if len(o.Streams) == 0 || (len(o.Streams) < 6 && r.Chance(20)) {
		kind = 0
	}
	if len(o.Streams) >= 8 && kind == 0 {
		kind = 1
	}
	if kind == 0 {
		s, rc := g.randAcct(), g.randAcct()
		for i := 0; i < 4 && rc.Addr.Equals(s.Addr); i++ {
			rc = g.randAcct()
		}
		d := denoms[r.Intn(len(denoms))]
		rate := int64(r.PickU64([]uint64{1, 3, 10, 1000, 1_000_000, 77_777}))
		secs := int64(r.PickU64([]uint64{60, 61, 100, 3600, 86400, 1000}))
		dep := math.NewInt(rate).MulRaw(secs).AddRaw(int64(r.Intn(int(minU64(uint64(rate), 1000)) + 1)))
		if r.Chance(5) {
			dep = math.NewInt(rate).MulRaw(59) // too short: rejected
		}
		m := &streamtypes.MsgCreateStream{Receiver: g.spell(rc, 5), Sender: g.spell(s, 5), Deposit: sdk.NewCoin(d, dep), FlowRate: rate}
		return g.plan(s, nil, m)
	}
	st := o.Streams[r.Intn(len(o.Streams))]
	sa, okS := g.acctByAddr(st.Sender)
	ra, okR := g.acctByAddr(st.Receiver)
	if !okS { // a party without a key in the lab (an address of another length): somebody else tries
		sa = g.randAcct()
	}
	switch kind {
	case 1:
		who := ra
		if !okR || r.Chance(hostilePct) {
			who = g.randAcct()
		}
		m := &streamtypes.MsgClaimStream{Receiver: g.spell(who, 5), Sender: st.Sender}
		if !who.Addr.Equals(ra.Addr) && r.Bool() {
			m.Receiver = st.Receiver // names the real receiver, signed by someone else → signer mismatch handled by plan signer
		}
		p := g.plan(who, nil, m)
		return p
	case 2:
		who := sa
		if r.Chance(hostilePct) {
			who = g.randAcct()
		}
		amt := math.NewInt(st.Stream.FlowRate).MulRaw(int64(r.PickU64([]uint64{1, 10, 100, 5000}))).AddRaw(int64(r.Intn(5)))
		d := st.Stream.Deposit.Denom
		if r.Chance(4) {
			d = lab.Denom2
		}
		m := &streamtypes.MsgTopUpDeposit{Receiver: st.Receiver, Sender: g.spell(who, 5), Deposit: sdk.NewCoin(d, amt)}
		return g.plan(who, nil, m)
	case 3:
		who := sa
		if r.Chance(hostilePct) {
			who = g.randAcct()
		}
		m := &streamtypes.MsgUpdateFlowRate{Receiver: st.Receiver, Sender: g.spell(who, 5), FlowRate: int64(r.PickU64([]uint64{1, 2, 50, 999, 1_000_000, 12345}))}
		return g.plan(who, nil, m)
	default:
		who := sa
		if r.Chance(hostilePct) {
			who = g.randAcct()
		}
		m := &streamtypes.MsgCancelStream{Receiver: st.Receiver, Sender: g.spell(who, 5)}
		return g.plan(who, nil, m)
	}
}

// ---- bank / staking / feegrant (background traffic, hostile transfers aimed at escrows) ----

func (g *Gen) BankTx(o *lab.Obs, aimAtEscrowPct int) *TxPlan {
	r := g.E.R
	from := g.randAcct()
	var to sdk.AccAddress
	if r.Chance(aimAtEscrowPct) {
		targets := []string{"enterprise", "stream", "fee_collector", "bonded_tokens_pool", "gov"}
		if g.NoGovTarget { // coins in the gov account make x/gov's own InitGenesis refuse an export (upstream)
			targets = targets[:4]
		}
		to = lab.ModAddr(targets[r.Intn(len(targets))])
	} else {
		to = g.randAcct().Addr
	}
	d := []string{lab.Denom, lab.Denom, lab.Denom2, lab.DenomBig}[r.Intn(4)]
	amt := sdk.NewCoins(sdk.NewInt64Coin(d, int64(r.PickU64([]uint64{1, 1000, 1_000_000, 5_000_000_000}))))
	if r.Chance(20) {
		in := banktypes.NewInput(from.Addr, amt)
		out := banktypes.NewOutput(to, amt)
		return g.plan(from, feeMaybe(r), banktypes.NewMsgMultiSend([]banktypes.Input{in}, []banktypes.Output{out}))
	}
	return g.plan(from, feeMaybe(r), banktypes.NewMsgSend(from.Addr, to, amt))
}

func feeMaybe(r *fw.Rand) sdk.Coins {
	if r.Chance(50) {
		return lab.Nund(int64(r.Range(1, 3000)))
	}
	return nil
}

func (g *Gen) StakingTx(o *lab.Obs) *TxPlan {
	r := g.E.R
	a := g.randAcct()
	val := g.E.L.ValOper
	amt := sdk.NewInt64Coin(lab.Denom, int64(r.PickU64([]uint64{1, 1000, 1_000_000, 100_000_000_000})))
	if r.Chance(70) {
		return g.plan(a, feeMaybe(r), stakingtypes.NewMsgDelegate(a.Addr, val, amt))
	}
	return g.plan(a, feeMaybe(r), stakingtypes.NewMsgUndelegate(a.Addr, val, amt))
}

func (g *Gen) FeeGrantPlan(granter, grantee lab.Acct) *TxPlan {
	m, err := feegrant.NewMsgGrantAllowance(&feegrant.BasicAllowance{}, granter.Addr, grantee.Addr)
	if err != nil {
		panic(err)
	}
	return &TxPlan{Spec: lab.TxSpec{Msgs: []sdk.Msg{m}, Signers: []lab.Acct{granter}}, Desc: fmt.Sprintf("FeeGrant(a%d->a%d)", g.idx(granter), g.idx(grantee))}
}

func findPO(o *lab.Obs, id uint64) enttypes.EnterpriseUndPurchaseOrder {
	for _, po := range o.POs {
		if po.Id == id {
			return po
		}
	}
	return enttypes.EnterpriseUndPurchaseOrder{Id: id}
}
