package props

import (
	"bytes"
	"fmt"
	"sort"
	"time"

	"cosmossdk.io/math"
	dbm "github.com/cometbft/cometbft-db"
	sdk "github.com/cosmos/cosmos-sdk/types"
	"github.com/cosmos/cosmos-sdk/types/query"

	"verifharness/fw"
	"verifharness/lab"

	beacontypes "github.com/unification-com/mainchain/x/beacon/types"
	enttypes "github.com/unification-com/mainchain/x/enterprise/types"
	streamtypes "github.com/unification-com/mainchain/x/stream/types"
	wrkchaintypes "github.com/unification-com/mainchain/x/wrkchain/types"
)

// C18: distinct entities never alias each other's storage.

func init() {
	fw.Register(&fw.Property{
		ID: "C18", Level: "exploration",
		Rule: "(a) key builders/parsers executed as code: every logical key of every family (purchase order, raised/accepted queue, locked, spent, whitelist, WRKChain, WRKChain block, WRKChain limit, BEACON, timestamp, BEACON limit, stream, singleton keys) built over the boundary grid {0,1,2,255,256,2^32-1,2^32,2^63-1,2^63,2^64-2,2^64-1}^2 (case 0: exhaustively) and PRNG values, and over addresses of every length 1..255 with adversarial contents (one a prefix of the other, embedded length bytes, 0x00/0xFF); all pairs compared for equality, every iterated prefix checked to capture only its own section, byte order == numeric order, parsers invert builders, and every key is re-checked after the next key is built (shared backing arrays); (b) the real keepers on a scratch chain: N hostile entities written, all read back, one deleted, all read back, iterated, listed through the gRPC query servers (streams: exact sender/receiver). distinct = (family pair, relation); non-trivial = cases with address lengths != 20 or ids >= 2^63",
		Cases: func(tier string) int {
			if tier == "thorough" {
				return 2000
			}
			return 320
		},
		Run:  runC18,
		Need: []string{"key_pairs", "keeper_entities"},
	})
}

var idGrid = []uint64{0, 1, 2, 255, 256, 1<<32 - 1, 1 << 32, 1<<63 - 1, 1 << 63, ^uint64(0) - 1, ^uint64(0)}

type lkey struct {
	family string
	logic  string // logical identity
	key    []byte
	prefix bool   // an iteration prefix rather than a full key
	owner  string // for prefixes: which logical section it must capture (family + id)
	sect   string // for full keys: the section they belong to
}

func hostileAddr(r *fw.Rand, n int) []byte {
	b := make([]byte, n)
	switch r.Intn(5) {
	case 0:
		for i := range b {
			b[i] = 0
		}
	case 1:
		for i := range b {
			b[i] = 0xFF
		}
	case 2:
		for i := range b {
			b[i] = byte(n) // embedded length bytes
		}
	case 3:
		for i := range b {
			b[i] = byte(20)
		}
	default:
		for i := range b {
			b[i] = byte(r.Intn(256))
		}
	}
	return b
}

func runC18(c *fw.Ctx) {
	r := c.Rng
	if c.Case%64 == 1 { // 5 quick / 32 thorough cases: allocation at the top of the id space
		c18TopOfIDSpace(c, ^uint64(0)-uint64((c.Case/64)%3))
	}
	// ---------- (a) key builders
	var ids []uint64
	if c.Case == 0 {
		ids = idGrid
	} else {
		for i := 0; i < 7; i++ {
			ids = append(ids, idGrid[r.Intn(len(idGrid))])
		}
		for i := 0; i < 5; i++ {
			ids = append(ids, r.U64()>>uint(r.Intn(64)))
		}
	}
	var addrs [][]byte
	lens := []int{1, 2, 19, 20, 21, 32, 33, 64, 254, 255}
	if c.Case != 0 {
		lens = nil
		for i := 0; i < 8; i++ {
			lens = append(lens, r.Range(1, 255))
		}
	}
	for _, n := range lens {
		a := hostileAddr(r, n)
		addrs = append(addrs, a)
		if n > 1 {
			addrs = append(addrs, append([]byte(nil), a[:n-1]...)) // a proper prefix of a
		}
		if n < 255 {
			addrs = append(addrs, append(append([]byte(nil), a...), byte(r.Intn(256)))) // extends a
		}
	}
	var keys []lkey
	var saved [][]byte
	add := func(k lkey) {
		keys = append(keys, k)
		saved = append(saved, append([]byte(nil), k.key...))
	}
	for _, id := range ids {
		s := fmt.Sprint(id)
		add(lkey{family: "ent/po", logic: s, key: enttypes.PurchaseOrderKey(id), sect: "ent/po"})
		add(lkey{family: "ent/raisedq", logic: s, key: enttypes.RaisedQueueStoreKey(id), sect: "ent/raisedq"})
		add(lkey{family: "ent/acceptedq", logic: s, key: enttypes.AcceptedQueueStoreKey(id), sect: "ent/acceptedq"})
		add(lkey{family: "wrk/chain", logic: s, key: wrkchaintypes.WrkChainKey(id), sect: "wrk/chain"})
		add(lkey{family: "wrk/limit", logic: s, key: wrkchaintypes.WrkChainStorageLimitKey(id), sect: "wrk/limit"})
		add(lkey{family: "wrk/blocks-prefix", logic: s, key: wrkchaintypes.WrkChainAllBlocksKey(id), prefix: true, owner: "wrk/block/" + s})
		add(lkey{family: "bcn/beacon", logic: s, key: beacontypes.BeaconKey(id), sect: "bcn/beacon"})
		add(lkey{family: "bcn/limit", logic: s, key: beacontypes.BeaconStorageLimitKey(id), sect: "bcn/limit"})
		add(lkey{family: "bcn/ts-prefix", logic: s, key: beacontypes.BeaconAllTimestampsKey(id), prefix: true, owner: "bcn/ts/" + s})
		for _, h := range ids {
			hs := s + "/" + fmt.Sprint(h)
			add(lkey{family: "wrk/block", logic: hs, key: wrkchaintypes.WrkChainBlockKey(id, h), sect: "wrk/block/" + s})
			add(lkey{family: "bcn/ts", logic: hs, key: beacontypes.BeaconTimestampKey(id, h), sect: "bcn/ts/" + s})
		}
		// parsers invert builders
		if enttypes.GetPurchaseOrderIDFromBytes(enttypes.GetPurchaseOrderIDBytes(id)) != id || enttypes.SplitRaisedQueueKey(enttypes.RaisedQueueStoreKey(id)) != id ||
			enttypes.SplitAcceptedQueueKey(enttypes.AcceptedQueueStoreKey(id)) != id || wrkchaintypes.GetWrkChainIDFromBytes(wrkchaintypes.GetWrkChainIDBytes(id)) != id ||
			beacontypes.GetBeaconIDFromBytes(beacontypes.GetBeaconIDBytes(id)) != id || beacontypes.GetTimestampIDFromBytes(beacontypes.GetTimestampIDBytes(id)) != id {
			c.Violate("id-parser-roundtrip", "ids", "id %d does not survive builder/parser round trip", id)
		}
	}
	for _, a := range addrs {
		s := fmt.Sprintf("%x", a)
		add(lkey{family: "ent/locked", logic: s, key: enttypes.LockedUndAddressStoreKey(a), sect: "ent/locked"})
		add(lkey{family: "ent/spent", logic: s, key: enttypes.SpentEFUNDAddressStoreKey(a), sect: "ent/spent"})
		add(lkey{family: "ent/whitelist", logic: s, key: enttypes.WhitelistAddressStoreKey(a), sect: "ent/whitelist"})
		add(lkey{family: "st/recv-prefix", logic: s, key: streamtypes.GetStreamsByReceiverKey(a), prefix: true, owner: "st/stream/" + s})
		for _, b := range addrs[:minInt(len(addrs), 9)] {
			k := streamtypes.GetStreamKey(a, b)
			add(lkey{family: "st/stream", logic: s + ">" + fmt.Sprintf("%x", b), key: k, sect: "st/stream/" + s})
			var gr, gs sdk.AccAddress
			if p := safeCall(func() { gr, gs = streamtypes.AddressesFromStreamKey(k) }); p != nil {
				c.Violate("stream-key-parser", fmt.Sprintf("len%d/%d", lenClass(len(a)), lenClass(len(b))), "AddressesFromStreamKey panicked for receiver %d bytes / sender %d bytes: %v", len(a), len(b), p)
			} else if !bytes.Equal(gr, a) || !bytes.Equal(gs, b) {
				c.Violate("stream-key-parser", fmt.Sprintf("len%d/%d", lenClass(len(a)), lenClass(len(b))), "AddressesFromStreamKey(GetStreamKey(r=%x, s=%x)) = (%x, %x)", a, b, gr, gs)
			}
			// suffix parser used by the by-receiver listing
			suffix := k[len(streamtypes.GetStreamsByReceiverKey(a)):]
			if p := safeCall(func() { gs = streamtypes.FirstAddressFromStreamStoreKey(suffix) }); p != nil || !bytes.Equal(gs, b) {
				c.Violate("stream-key-parser", "suffix", "FirstAddressFromStreamStoreKey gives %x for sender %x (panic %v)", gs, b, p)
			}
		}
	}
	// singleton keys
	for name, k := range map[string][]byte{"ent/highest": enttypes.HighestPurchaseOrderIDKey, "ent/params": enttypes.ParamsKey, "ent/totalspent": enttypes.TotalSpentEFUNDKey, "ent/totallocked": enttypes.TotalLockedUndKey} {
		add(lkey{family: name, logic: "-", key: k, sect: name})
	}
	for name, k := range map[string][]byte{"wrk/highest": wrkchaintypes.HighestWrkChainIDKey, "wrk/params": wrkchaintypes.ParamsKey} {
		add(lkey{family: name, logic: "-", key: k, sect: name})
	}
	for name, k := range map[string][]byte{"bcn/highest": beacontypes.HighestBeaconIDKey, "bcn/params": beacontypes.ParamsKey} {
		add(lkey{family: name, logic: "-", key: k, sect: name})
	}
	add(lkey{family: "st/params", logic: "-", key: streamtypes.ParamsKey, sect: "st/params"})
	// section prefixes that the code iterates
	secPrefixes := []lkey{
		{family: "ent/po-section", key: enttypes.PurchaseOrderIDKeyPrefix, prefix: true, owner: "ent/po"},
		{family: "ent/locked-section", key: enttypes.LockedUndAddressKeyPrefix, prefix: true, owner: "ent/locked"},
		{family: "ent/whitelist-section", key: enttypes.WhitelistKeyPrefix, prefix: true, owner: "ent/whitelist"},
		{family: "ent/raised-section", key: enttypes.RaisedPoPrefix, prefix: true, owner: "ent/raisedq"},
		{family: "ent/accepted-section", key: enttypes.AcceptedPoPrefix, prefix: true, owner: "ent/acceptedq"},
		{family: "ent/spent-section", key: enttypes.SpentEFUNDAddressKeyPrefix, prefix: true, owner: "ent/spent"},
		{family: "wrk/chain-section", key: wrkchaintypes.RegisteredWrkChainPrefix, prefix: true, owner: "wrk/chain"},
		{family: "bcn/beacon-section", key: beacontypes.RegisteredBeaconPrefix, prefix: true, owner: "bcn/beacon"},
		{family: "st/stream-section", key: streamtypes.StreamKeyPrefix, prefix: true, owner: "st/stream"},
	}
	for _, p := range secPrefixes {
		add(p)
	}
	// re-check after all later keys were built: no builder may share a backing array
	for i := range keys {
		if !bytes.Equal(keys[i].key, saved[i]) {
			c.Violate("key-mutated-by-later-builder", keys[i].family, "key of %s/%s changed from %x to %x after later keys were built (shared backing array)", keys[i].family, keys[i].logic, saved[i], keys[i].key)
		}
	}
	modOf := func(f string) string { return f[:3] }
	// pairwise: equality and prefix capture (within one module store)
	byMod := map[string][]int{}
	for i, k := range keys {
		byMod[modOf(k.family)] = append(byMod[modOf(k.family)], i)
	}
	for _, idxs := range byMod {
		for x := 0; x < len(idxs); x++ {
			a := keys[idxs[x]]
			for y := x + 1; y < len(idxs); y++ {
				b := keys[idxs[y]]
				c.Count("key_pairs", 1)
				if !a.prefix && !b.prefix {
					same := a.family == b.family && a.logic == b.logic
					if bytes.Equal(a.key, b.key) != same {
						c.Violate("key-collision", a.family+"|"+b.family, "%s/%s and %s/%s: keys %x and %x (logical identity same=%v)", a.family, a.logic, b.family, b.logic, a.key, b.key, same)
					}
					continue
				}
				// prefix vs full key
				p, f := a, b
				if b.prefix && !a.prefix {
					p, f = b, a
				}
				if p.prefix && f.prefix {
					continue
				}
				captured := bytes.HasPrefix(f.key, p.key)
				belongs := f.sect == p.owner || (len(f.sect) > len(p.owner) && f.sect[:len(p.owner)+1] == p.owner+"/")
				if captured != belongs {
					c.Violate("prefix-capture", p.family+"|"+f.family, "iteration prefix %s/%s (%x) captured=%v key %s/%s (%x), belongs=%v", p.family, p.logic, p.key, captured, f.family, f.logic, f.key, belongs)
				}
				c.Distinct(fmt.Sprintf("%s|%s/captured=%v", p.family, f.family, captured))
			}
		}
	}
	// byte order == numeric order
	for _, a := range ids {
		for _, b := range ids {
			want := 0
			if a < b {
				want = -1
			} else if a > b {
				want = 1
			}
			for name, f := range map[string]func(uint64) []byte{"ent/po": enttypes.PurchaseOrderKey, "wrk/chain": wrkchaintypes.WrkChainKey, "bcn/beacon": beacontypes.BeaconKey,
				"wrk/block": func(h uint64) []byte { return wrkchaintypes.WrkChainBlockKey(7, h) }, "bcn/ts": func(h uint64) []byte { return beacontypes.BeaconTimestampKey(7, h) }} {
				if bytes.Compare(f(a), f(b)) != want {
					c.Violate("key-order", name, "%s keys of %d and %d are not in numeric order", name, a, b)
				}
			}
		}
	}
	for _, a := range addrs {
		if len(a) != 20 {
			c.Nontrivial()
		}
	}
	// ---------- (b) real keepers on a scratch chain
	c18Keepers(c, ids, addrs)
	if c.Case < 2 {
		c.Sample(map[string]interface{}{"ids": ids, "address_lengths": lens})
	}
}

func lenClass(n int) int {
	switch {
	case n < 20:
		return 1
	case n == 20:
		return 20
	case n <= 32:
		return 32
	}
	return 255
}

func c18Keepers(c *fw.Ctx, ids []uint64, addrs [][]byte) {
	r := c.Rng
	o := lab.DefaultOptions()
	o.NAccts = 3
	o.Home = c.Scratch + "/home"
	l := lab.New(dbm.NewMemDB(), o)
	defer l.Cleanup()
	ctx := l.Ctx()
	a := l.App
	uniq := func(xs []uint64) []uint64 {
		m := map[uint64]bool{}
		var out []uint64
		for _, x := range xs {
			if !m[x] {
				m[x] = true
				out = append(out, x)
			}
		}
		return out
	}
	ids = uniq(ids)
	var nz []uint64
	for _, id := range ids {
		if id != 0 {
			nz = append(nz, id)
		}
	}
	// distinct addresses
	am := map[string]bool{}
	var as [][]byte
	for _, x := range addrs {
		if !am[string(x)] {
			am[string(x)] = true
			as = append(as, x)
		}
	}
	if len(as) > 14 {
		as = as[:14]
	}
	bech := func(b []byte) string { return sdk.AccAddress(b).String() }
	// Entities are written with SPARSE optional fields (empty / zero in a pattern that differs between
	// neighbours): a listing that decodes into a reused value, or a reader that falls through to the
	// neighbour, then shows the neighbour's content. Everything read back - point reads, iterations,
	// export iterations - is compared with these constructors field by field.
	opt := func(on bool, v string) string {
		if on {
			return v
		}
		return ""
	}
	optU := func(on bool, v uint64) uint64 {
		if on {
			return v
		}
		return 0
	}
	pos := func(id uint64) int {
		for i, x := range ids {
			if x == id {
				return i
			}
		}
		return 0
	}
	mkBlock := func(id, h uint64) wrkchaintypes.WrkChainBlock {
		k := pos(id) + pos(h)
		return wrkchaintypes.WrkChainBlock{Height: h, Blockhash: fmt.Sprintf("%d/%d", id, h), Parenthash: opt(k%2 == 1, fmt.Sprintf("p%d/%d", id, h)), Hash1: opt(k%3 == 0, fmt.Sprintf("h1-%d/%d", id, h)),
			Hash2: opt(k%3 == 1, fmt.Sprintf("h2-%d/%d", id, h)), Hash3: opt(k%4 == 2, fmt.Sprintf("h3-%d/%d", id, h)), SubTime: optU(k%2 == 0, 1_700_000_000+uint64(k))}
	}
	mkTs := func(id, h uint64) beacontypes.BeaconTimestamp {
		k := pos(id) + pos(h)
		return beacontypes.BeaconTimestamp{TimestampId: h, Hash: fmt.Sprintf("%d/%d", id, h), SubmitTime: optU(k%2 == 1, 1_600_000_000+uint64(k))}
	}
	mkWrk := func(id uint64) wrkchaintypes.WrkChain {
		k := pos(id)
		return wrkchaintypes.WrkChain{WrkchainId: id, Moniker: fmt.Sprintf("w%d", id), Name: opt(k%2 == 0, fmt.Sprintf("name%d", id)), Genesis: opt(k%3 == 0, fmt.Sprintf("gen%d", id)), Type: opt(k%2 == 1, "geth"),
			Owner: bech(as[k%len(as)]), Lastblock: id, NumBlocks: optU(k%3 == 1, uint64(k)+1), LowestHeight: optU(k%4 == 1, uint64(k)+2), RegTime: optU(k%2 == 1, 1_500_000_000+uint64(k))}
	}
	mkBeacon := func(id uint64) beacontypes.Beacon {
		k := pos(id)
		return beacontypes.Beacon{BeaconId: id, Moniker: fmt.Sprintf("b%d", id), Name: opt(k%2 == 1, fmt.Sprintf("name%d", id)), Owner: bech(as[k%len(as)]), LastTimestampId: id,
			FirstIdInState: optU(k%3 == 0, uint64(k)+1), NumInState: optU(k%3 == 2, uint64(k)+3), RegTime: optU(k%2 == 0, 1_400_000_000+uint64(k))}
	}
	mkPO := func(id uint64) enttypes.EnterpriseUndPurchaseOrder {
		k := pos(id)
		po := enttypes.EnterpriseUndPurchaseOrder{Id: id, Purchaser: bech(as[k%len(as)]), Amount: sdk.NewCoin(lab.Denom, math.NewIntFromUint64(id>>1).AddRaw(1)), Status: enttypes.StatusRaised, RaiseTime: id,
			CompletionTime: optU(k%3 == 1, 1_300_000_000+uint64(k))}
		if k%2 == 1 {
			po.Decisions = enttypes.PurchaseOrderDecisions{{Signer: bech(as[0]), Decision: enttypes.StatusAccepted, DecisionTime: uint64(k) + 5}}
		}
		return po
	}
	same := func(x, y fmt.Stringer) bool { return x.String() == y.String() }
	// ---- write
	for _, id := range ids {
		a.EnterpriseKeeper.SetPurchaseOrder(ctx, mkPO(id))
		a.WrkchainKeeper.SetWrkChain(ctx, mkWrk(id))
		a.WrkchainKeeper.SetWrkChainStorageLimit(ctx, id, id^0x5555)
		a.BeaconKeeper.SetBeacon(ctx, mkBeacon(id))
		a.BeaconKeeper.SetBeaconStorageLimit(ctx, id, id^0xAAAA)
		for _, h := range ids {
			a.WrkchainKeeper.SetWrkChainBlock(ctx, id, mkBlock(id, h))
			a.BeaconKeeper.SetBeaconTimestamp(ctx, id, mkTs(id, h))
		}
	}
	for i, ad := range as {
		a.EnterpriseKeeper.SetLockedUndForAccount(ctx, enttypes.LockedUnd{Owner: bech(ad), Amount: sdk.NewInt64Coin(lab.Denom, int64(1000+i))})
		a.EnterpriseKeeper.SetSpentEFUNDForAccount(ctx, enttypes.SpentEFUND{Owner: bech(ad), Amount: sdk.NewInt64Coin(lab.Denom, int64(5000+i))})
		if i%2 == 0 {
			a.EnterpriseKeeper.AddAddressToWhitelist(ctx, ad)
		}
		for j, bd := range as {
			if i != j && (i+j)%3 != 0 {
				a.StreamKeeper.SetStream(ctx, ad, bd, streamtypes.Stream{Deposit: sdk.NewInt64Coin(lab.Denom, int64(i*100+j)), FlowRate: int64(i*100 + j + 1), LastOutflowTime: time.Unix(1, 0).UTC(), DepositZeroTime: time.Unix(2, 0).UTC()})
			}
		}
	}
	c.Count("keeper_entities", int64(len(ids)*5+2*len(ids)*len(ids)+len(as)*3))
	victim := ids[r.Intn(len(ids))]
	victimAddr := r.Intn(len(as))
	check := func(stage string, deleted bool) {
		for _, id := range ids {
			po, ok := a.EnterpriseKeeper.GetPurchaseOrder(ctx, id)
			if wantPO := mkPO(id); !ok || po.Id != id || po.RaiseTime != id || !same(&po, &wantPO) {
				c.Violate("keeper-aliasing", "purchase-order/"+stage, "purchase order %d reads back as %+v (found %v)", id, po, ok)
			}
			w, ok := a.WrkchainKeeper.GetWrkChain(ctx, id)
			if wantW := mkWrk(id); !ok || w.WrkchainId != id || w.Lastblock != id || !same(&w, &wantW) {
				c.Violate("keeper-aliasing", "wrkchain/"+stage, "wrkchain %d reads back as %+v (found %v)", id, w, ok)
			}
			lim, _ := a.WrkchainKeeper.GetWrkChainStorageLimit(ctx, id)
			if lim.InStateLimit != id^0x5555 {
				c.Violate("keeper-aliasing", "wrkchain-limit/"+stage, "wrkchain %d limit reads %d, written %d", id, lim.InStateLimit, id^0x5555)
			}
			b, ok := a.BeaconKeeper.GetBeacon(ctx, id)
			if wantB := mkBeacon(id); !ok || b.BeaconId != id || b.LastTimestampId != id || !same(&b, &wantB) {
				c.Violate("keeper-aliasing", "beacon/"+stage, "beacon %d reads back as %+v (found %v)", id, b, ok)
			}
			bl, _ := a.BeaconKeeper.GetBeaconStorageLimit(ctx, id)
			if bl.InStateLimit != id^0xAAAA {
				c.Violate("keeper-aliasing", "beacon-limit/"+stage, "beacon %d limit reads %d, written %d", id, bl.InStateLimit, id^0xAAAA)
			}
			for _, h := range ids {
				gone := deleted && id == victim && h == victim
				wb, ok := a.WrkchainKeeper.GetWrkChainBlock(ctx, id, h)
				if wantWB := mkBlock(id, h); ok == gone || (!gone && !same(&wb, &wantWB)) {
					c.Violate("keeper-aliasing", "wrkchain-block/"+stage, "block (%d,%d) reads %q found=%v (deleted=%v)", id, h, wb.String(), ok, gone)
				}
				ts, ok := a.BeaconKeeper.GetBeaconTimestampByID(ctx, id, h)
				if wantTs := mkTs(id, h); !ok || !same(&ts, &wantTs) {
					c.Violate("keeper-aliasing", "beacon-timestamp/"+stage, "timestamp (%d,%d) reads %q found=%v", id, h, ts.Hash, ok)
				}
			}
			// iteration of one registration's records: ascending, only its own
			var hs []uint64
			for _, wb := range a.WrkchainKeeper.GetAllWrkChainBlockHashes(ctx, id) {
				hs = append(hs, wb.Height)
				if wantWB := mkBlock(id, wb.Height); !same(&wb, &wantWB) {
					c.Violate("iteration-foreign-item", "wrkchain-block/"+stage, "iterating blocks of wrkchain %d yields {%s}, written {%s}", id, oneLine(wb.String()), oneLine(wantWB.String()))
					break
				}
			}
			for _, ex := range a.WrkchainKeeper.GetAllWrkChainBlockHashesForGenesisExport(ctx, id) {
				w0 := mkBlock(id, ex.He)
				if ex.Bh != w0.Blockhash || ex.Ph != w0.Parenthash || ex.H1 != w0.Hash1 || ex.H2 != w0.Hash2 || ex.H3 != w0.Hash3 || ex.St != w0.SubTime {
					c.Violate("iteration-foreign-item", "wrkchain-block-export/"+stage, "export iteration of wrkchain %d yields {%s} for height %d, written {%s}", id, oneLine(ex.String()), ex.He, oneLine(w0.String()))
					break
				}
			}
			var tids []uint64
			for _, ts := range a.BeaconKeeper.GetAllBeaconTimestamps(ctx, id) {
				tids = append(tids, ts.TimestampId)
				if wantTs := mkTs(id, ts.TimestampId); !same(&ts, &wantTs) {
					c.Violate("iteration-foreign-item", "beacon-timestamp/"+stage, "iterating timestamps of beacon %d yields {%s}, written {%s}", id, oneLine(ts.String()), oneLine(wantTs.String()))
					break
				}
			}
			if len(tids) != len(ids) || !sort.SliceIsSorted(tids, func(i, j int) bool { return tids[i] < tids[j] }) {
				c.Violate("iteration-order-or-count", "beacon-timestamp/"+stage, "timestamps of beacon %d iterate as %v (want %d ascending)", id, tids, len(ids))
			}
			for _, ex := range a.BeaconKeeper.GetAllBeaconTimestampsForExport(ctx, id) {
				t0 := mkTs(id, ex.Id)
				if ex.H != t0.Hash || ex.T != t0.SubmitTime {
					c.Violate("iteration-foreign-item", "beacon-timestamp-export/"+stage, "export iteration of beacon %d yields {%s} for id %d, written {%s}", id, oneLine(ex.String()), ex.Id, oneLine(t0.String()))
					break
				}
			}
			wantN := len(ids)
			if deleted && id == victim {
				wantN--
			}
			if len(hs) != wantN || !sort.SliceIsSorted(hs, func(i, j int) bool { return hs[i] < hs[j] }) {
				c.Violate("iteration-order-or-count", "wrkchain-block/"+stage, "blocks of wrkchain %d iterate as %v (want %d ascending)", id, hs, wantN)
			}
		}
		for i, ad := range as {
			gone := deleted && i == victimAddr
			lk := a.EnterpriseKeeper.GetLockedUndForAccount(ctx, ad)
			if lk.Amount.Amount.Int64() != int64(1000+i) {
				c.Violate("keeper-aliasing", "locked/"+stage, "locked of address #%d (%d bytes) reads %s, written %d", i, len(ad), lk.Amount, 1000+i)
			}
			sp := a.EnterpriseKeeper.GetSpentEFUNDForAccount(ctx, ad)
			if sp.Amount.Amount.Int64() != int64(5000+i) {
				c.Violate("keeper-aliasing", "spent/"+stage, "spent of address #%d (%d bytes) reads %s, written %d", i, len(ad), sp.Amount, 5000+i)
			}
			wl := a.EnterpriseKeeper.AddressIsWhitelisted(ctx, ad)
			if wl != (i%2 == 0 && !gone) {
				c.Violate("keeper-aliasing", "whitelist/"+stage, "whitelist flag of address #%d (%d bytes) is %v", i, len(ad), wl)
			}
			for j, bd := range as {
				want := i != j && (i+j)%3 != 0
				if deleted && i == victimAddr && j == (victimAddr+1)%len(as) {
					want = false
				}
				st, ok := a.StreamKeeper.GetStream(ctx, ad, bd)
				if ok != want || (ok && st.FlowRate != int64(i*100+j+1)) {
					c.Violate("keeper-aliasing", "stream/"+stage, "stream receiver #%d (%dB) sender #%d (%dB): found=%v rate=%d, expected found=%v rate=%d", i, len(ad), j, len(bd), ok, st.FlowRate, want, i*100+j+1)
				}
			}
		}
		// listing order of purchase orders / wrkchains / beacons
		var pids []uint64
		for _, po := range a.EnterpriseKeeper.GetAllPurchaseOrders(ctx) {
			pids = append(pids, po.Id)
			if wantPO := mkPO(po.Id); !same(&po, &wantPO) {
				c.Violate("iteration-foreign-item", "purchase-order/"+stage, "listing purchase orders yields {%s}, written {%s}", oneLine(po.String()), oneLine(wantPO.String()))
				break
			}
		}
		var wids, bids []uint64
		for _, w := range a.WrkchainKeeper.GetAllWrkChains(ctx) {
			wids = append(wids, w.WrkchainId)
			if wantW := mkWrk(w.WrkchainId); !same(&w, &wantW) {
				c.Violate("iteration-foreign-item", "wrkchain/"+stage, "listing wrkchains yields {%s}, written {%s}", oneLine(w.String()), oneLine(wantW.String()))
				break
			}
		}
		for _, b := range a.BeaconKeeper.GetAllBeacons(ctx) {
			bids = append(bids, b.BeaconId)
			if wantB := mkBeacon(b.BeaconId); !same(&b, &wantB) {
				c.Violate("iteration-foreign-item", "beacon/"+stage, "listing beacons yields {%s}, written {%s}", oneLine(b.String()), oneLine(wantB.String()))
				break
			}
		}
		if len(wids) != len(ids) || !sort.SliceIsSorted(wids, func(i, j int) bool { return wids[i] < wids[j] }) || len(bids) != len(ids) || !sort.SliceIsSorted(bids, func(i, j int) bool { return bids[i] < bids[j] }) {
			c.Violate("iteration-order-or-count", "registrations/"+stage, "wrkchains list as %v, beacons as %v (want %d each, ascending)", wids, bids, len(ids))
		}
		if len(pids) != len(ids) || !sort.SliceIsSorted(pids, func(i, j int) bool { return pids[i] < pids[j] }) {
			c.Violate("iteration-order-or-count", "purchase-order/"+stage, "purchase orders list as %v", pids)
		}
		// stream listings: exact parties (keeper iteration + gRPC queries)
		type pair struct{ r, s string }
		want := map[pair]int64{}
		for i, ad := range as {
			for j, bd := range as {
				if i != j && (i+j)%3 != 0 && !(deleted && i == victimAddr && j == (victimAddr+1)%len(as)) {
					want[pair{bech(ad), bech(bd)}] = int64(i*100 + j + 1)
				}
			}
		}
		got := map[pair]int64{}
		if p := safeCall(func() {
			a.StreamKeeper.IterateAllStreams(ctx, func(rc, sd sdk.AccAddress, st streamtypes.Stream) bool {
				got[pair{rc.String(), sd.String()}] = st.FlowRate
				return false
			})
		}); p != nil {
			c.Violate("stream-listing-panic", "iterate/"+stage, "IterateAllStreams panicked: %v", p)
		}
		cmp := func(name string, got map[pair]int64, want map[pair]int64) {
			for k, v := range want {
				if got[k] != v {
					c.Violate("stream-listing-parties", name+"/"+stage, "%s: stream receiver %s sender %s (rate %d) missing or reported with other parties; got rate %d", name, k.r, k.s, v, got[k])
					return
				}
			}
			if len(got) != len(want) {
				c.Violate("stream-listing-parties", name+"/"+stage, "%s lists %d streams, %d exist", name, len(got), len(want))
			}
		}
		cmp("IterateAllStreams", got, want)
		g := sdk.WrapSDKContext(ctx)
		got2 := map[pair]int64{}
		if p := safeCall(func() {
			res, err := a.StreamKeeper.Streams(g, &streamtypes.QueryStreamsRequest{Pagination: &query.PageRequest{Limit: 10000}})
			if err != nil {
				c.Violate("stream-listing-panic", "Streams/"+stage, "Streams query error: %v", err)
				return
			}
			for _, s := range res.Streams {
				got2[pair{s.Receiver, s.Sender}] = s.Stream.FlowRate
			}
		}); p != nil {
			c.Violate("stream-listing-panic", "Streams/"+stage, "Streams query panicked: %v", p)
		}
		cmp("Streams query", got2, want)
		// by sender / by receiver for two addresses
		for _, i := range []int{0, len(as) - 1} {
			ws, wr := map[pair]int64{}, map[pair]int64{}
			for k, v := range want {
				if k.s == bech(as[i]) {
					ws[k] = v
				}
				if k.r == bech(as[i]) {
					wr[k] = v
				}
			}
			gs, gr := map[pair]int64{}, map[pair]int64{}
			if p := safeCall(func() {
				res, err := a.StreamKeeper.AllStreamsForSender(g, &streamtypes.QueryAllStreamsForSenderRequest{SenderAddr: bech(as[i]), Pagination: &query.PageRequest{Limit: 10000}})
				if err == nil {
					for _, s := range res.Streams {
						gs[pair{s.Receiver, s.Sender}] = s.Stream.FlowRate
					}
				}
				res2, err2 := a.StreamKeeper.AllStreamsForReceiver(g, &streamtypes.QueryAllStreamsForReceiverRequest{ReceiverAddr: bech(as[i]), Pagination: &query.PageRequest{Limit: 10000}})
				if err2 == nil {
					for _, s := range res2.Streams {
						gr[pair{s.Receiver, s.Sender}] = s.Stream.FlowRate
					}
				}
			}); p != nil {
				c.Violate("stream-listing-panic", "by-party/"+stage, "stream by-sender/by-receiver query panicked: %v", p)
			}
			cmp("AllStreamsForSender", gs, ws)
			cmp("AllStreamsForReceiver", gr, wr)
		}
	}
	check("after-write", false)
	// ---- delete one of each and re-read everything
	store := ctx.KVStore(a.GetKey("wrkchain"))
	store.Delete(wrkchaintypes.WrkChainBlockKey(victim, victim))
	a.EnterpriseKeeper.RemoveAddressFromWhitelist(ctx, as[victimAddr])
	a.StreamKeeper.DeleteStream(ctx, as[victimAddr], as[(victimAddr+1)%len(as)])
	check("after-delete", true)
}
