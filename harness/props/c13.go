package props

import (
	"fmt"
	"strings"
	"time"

	abci "github.com/cometbft/cometbft/abci/types"
	sdk "github.com/cosmos/cosmos-sdk/types"

	"verifharness/fw"
	"verifharness/lab"

	beacontypes "github.com/unification-com/mainchain/x/beacon/types"
	enttypes "github.com/unification-com/mainchain/x/enterprise/types"
	streamtypes "github.com/unification-com/mainchain/x/stream/types"
	wrkchaintypes "github.com/unification-com/mainchain/x/wrkchain/types"
)

// C13: every state-changing message takes effect only for its entitled signer.

func init() {
	fw.Register(&fw.Property{
		ID: "C13", Level: "exploration",
		Rule: "each case: a mixed history (with governance rotations of the enterprise signer set) interrupted by 2-3 probe points; at each probe point, for every state-changing message type of the four modules (raise, decide, whitelist add and remove - also of the named account's own entry, WRKChain/BEACON register/record/purchase, stream create/claim/top-up/rate/cancel, MsgUpdateParams x4) x every account as SIGNING KEY x {itself, the entitled party, another account, the gov authority} as the ADDRESS NAMED in the message - directly and wrapped in MsgExec without a grant - the tx is delivered with zero fee and the raw diff of all stores is taken. Rules: named != signing key => every store byte-identical; custom-module state changed => the signer is the entitled party per the pre-state (current enterprise signer, registered owner, stream sender/receiver, never for parameter updates); rejected => custom-module stores byte-identical. Governance-delivered probes: after each probe point one REAL proposal per message (submit, vote, tally) carries decide / whitelist / record / purchase / top-up / rate / cancel / claim messages that name the gov module account as the acting party (it is entitled to parameter updates only and owns nothing in these histories): the EndBlock that executes them must leave the four custom-module stores byte-identical. distinct = (message type, signer relation, outcome)",
		Cases: func(tier string) int {
			if tier == "thorough" {
				return 2000
			}
			return 64
		},
		Run:         runC13,
		Need:        []string{"probes", "probes_wrong_key", "probes_not_entitled", "probes_entitled_ok", "gov_delivered_probes"},
		Assumptions: []string{"entitlement is decided from the observed pre-state by decoded address; probes carry zero fee so that the ante stage writes nothing to custom-module stores"},
	})
}

type c13Probe struct {
	kind     string
	msg      sdk.Msg
	named    lab.Acct // the account named in the message (zero value for the gov authority)
	entitled func(o *lab.Obs, who lab.Acct) bool
}

func runC13(c *fw.Ctx) {
	r := c.Rng
	o := RandOptions(r)
	e := NewEnv(c, o)
	defer e.L.Cleanup()
	g := NewGen(e)
	w := defaultMix
	w.GovPct, w.VetoPct, w.LowGasPct = 0, 0, 0
	w.NestedPct = 0 // no authz grants exist in these histories, so every MsgExec probe is unauthorised
	w.Ent, w.Reg, w.Stream = 35, 30, 20
	// whatever the message and whoever signed it: no transaction may hand an existing registration
	// to another owner or swap the parties of an existing stream (only its own signer's entities are
	// its to change, and ownership is not changeable at all)
	e.Monitors = append(e.Monitors, &Monitor{Name: "c13-ownership", AfterTx: func(e *Env, tx *TxPlan, pre, post *lab.Obs, resp abci.ResponseDeliverTx) {
		for _, w := range pre.Wrk {
			if w2 := findWrk(post, w.WrkchainId); w2 != nil && ownerHex(w2.Owner) != ownerHex(w.Owner) {
				c.Violate("not-entitled-changed-state", "wrkchain-owner-replaced", "tx %s (code %d) replaced the owner of WRKChain %d: %s -> %s", tx.Desc, resp.Code, w.WrkchainId, w.Owner, w2.Owner)
			}
		}
		for _, b := range pre.Beacons {
			if b2 := findBeacon(post, b.BeaconId); b2 != nil && ownerHex(b2.Owner) != ownerHex(b.Owner) {
				c.Violate("not-entitled-changed-state", "beacon-owner-replaced", "tx %s (code %d) replaced the owner of BEACON %d: %s -> %s", tx.Desc, resp.Code, b.BeaconId, b.Owner, b2.Owner)
			}
		}
		c.Count("ownership_checks", int64(len(pre.Wrk)+len(pre.Beacons)))
	}})
	points := r.Range(2, 3)
	// a third of the histories move to a fresh chain initialised from an export before a probe point
	reimportAt := -1
	if r.Chance(33) {
		reimportAt = r.Intn(points)
		w.Bank, w.Staking = 0, 0
	}
	for p := 0; p < points && e.Halted == ""; p++ {
		RunMixed(e, g, w, r.Range(8, 14))
		if e.Halted != "" {
			break
		}
		if p == reimportAt {
			e.Reimport()
		}
		if p > 0 || r.Bool() { // rotate the enterprise signer set: removed signers must lose their rights
			ep := e.Last.EntParams
			n := r.Range(1, 2)
			off := r.Intn(3)
			var s []string
			for i := 0; i < n; i++ {
				s = append(s, e.L.Accts[(i+off)%len(e.L.Accts)].Addr.String())
			}
			ep.EntSigners = strings.Join(s, ",")
			ep.MinAccepts = 1
			e.Gov("rotate ent signers", &enttypes.MsgUpdateParams{Authority: lab.GovAuthority(), Params: ep})
			c.Count("signer_rotations", 1)
		}
		c13ProbePoint(c, e, g)
		c13GovDelivered(c, e, g)
		c13Crafted(c, e, g)
		if p == points-1 {
			c13OddReceivers(c, e, g)
		}
	}
	noteHalt(e)
	c.Nontrivial()
	if c.Case < 2 {
		c.Sample(map[string]interface{}{"trace_tail": e.TraceTail(25)})
	}
}

func isSigner(o *lab.Obs, a lab.Acct) bool {
	set, _ := signerSet(o.EntParams)
	return set[ownerHex(a.Addr.String())]
}

func c13ProbePoint(c *fw.Ctx, e *Env, g *Gen) {
	r := e.R
	accts := e.L.Accts
	custom := lab.CustomStores
	e.BeginBlock(time.Second)
	defer e.EndBlock()
	for _, y := range accts { // signing key
		obs := e.Last
		// candidates for the named address: itself, another account, (entitled party added per kind)
		other := accts[(g.idx(y)+1+r.Intn(len(accts)-1))%len(accts)]
		var probes []c13Probe
		add := func(kind string, named lab.Acct, msg sdk.Msg, ent func(o *lab.Obs, who lab.Acct) bool) {
			probes = append(probes, c13Probe{kind, msg, named, ent})
		}
		for _, x := range []lab.Acct{y, other} {
			xs := x.Addr.String()
			if r.Chance(35) { // the other valid spelling of the same account
				xs = x.Upper()
			}
			add("PoRaise", x, &enttypes.MsgUndPurchaseOrder{Purchaser: xs, Amount: sdk.NewInt64Coin(obs.EntParams.Denom, 77)}, func(o *lab.Obs, who lab.Acct) bool { return true })
			if len(obs.RaisedQ) > 0 {
				add("PoDecide", x, &enttypes.MsgProcessUndPurchaseOrder{PurchaseOrderId: obs.RaisedQ[r.Intn(len(obs.RaisedQ))], Decision: enttypes.StatusRejected, Signer: xs}, isSigner)
			}
			add("Whitelist", x, &enttypes.MsgWhitelistAddress{Address: accts[r.Intn(len(accts))].Addr.String(), Signer: xs, Action: enttypes.WhitelistActionAdd}, isSigner)
			// removal of a whitelist entry - the named account's own one first (a whitelisted account
			// that is not an enterprise signer has no say over the whitelist, not even about itself)
			rmTarget := x.Addr.String()
			if len(obs.Whitelist) > 0 && r.Chance(40) {
				rmTarget = obs.Whitelist[r.Intn(len(obs.Whitelist))]
			}
			add("WhitelistRemove", x, &enttypes.MsgWhitelistAddress{Address: rmTarget, Signer: xs, Action: enttypes.WhitelistActionRemove}, isSigner)
			add("WrkReg", x, g.WrkRegisterMsg(x), func(o *lab.Obs, who lab.Acct) bool { return true })
			add("BcnReg", x, g.BeaconRegisterMsg(x), func(o *lab.Obs, who lab.Acct) bool { return true })
			if len(obs.Wrk) > 0 {
				wc := obs.Wrk[r.Intn(len(obs.Wrk))]
				own := func(o *lab.Obs, who lab.Acct) bool {
					w := findWrk(o, wc.WrkchainId)
					return w != nil && ownerHex(w.Owner) == ownerHex(who.Addr.String())
				}
				add("WrkRec", x, &wrkchaintypes.MsgRecordWrkChainBlock{WrkchainId: wc.WrkchainId, Height: wc.Lastblock + 1 + uint64(e.NTx), BlockHash: g.hash(32), Owner: xs}, own)
				add("WrkBuy", x, &wrkchaintypes.MsgPurchaseWrkChainStateStorage{WrkchainId: wc.WrkchainId, Number: 1, Owner: xs}, own)
			}
			if len(obs.Beacons) > 0 {
				bc := obs.Beacons[r.Intn(len(obs.Beacons))]
				own := func(o *lab.Obs, who lab.Acct) bool {
					b := findBeacon(o, bc.BeaconId)
					return b != nil && ownerHex(b.Owner) == ownerHex(who.Addr.String())
				}
				add("BcnRec", x, g.BeaconRecordMsg(bc.BeaconId, x), own)
				probes[len(probes)-1].msg.(*beacontypes.MsgRecordBeaconTimestamp).Owner = xs
				add("BcnBuy", x, &beacontypes.MsgPurchaseBeaconStateStorage{BeaconId: bc.BeaconId, Number: 1, Owner: xs}, own)
			}
			if len(obs.Streams) > 0 {
				st := obs.Streams[r.Intn(len(obs.Streams))]
				// a stream is identified by (sender, receiver): the party named in the message is entitled
				// exactly when that very stream exists in the pre-state
				exists := func(sender, receiver string) func(o *lab.Obs, who lab.Acct) bool {
					return func(o *lab.Obs, who lab.Acct) bool {
						for _, s2 := range o.Streams {
							if skey(s2.Sender, s2.Receiver) == skey(sender, receiver) {
								return true
							}
						}
						return false
					}
				}
				isSender := exists(xs, st.Receiver)
				isRecv := exists(st.Sender, xs)
				add("StTopUp", x, &streamtypes.MsgTopUpDeposit{Receiver: st.Receiver, Sender: xs, Deposit: sdk.NewCoin(st.Stream.Deposit.Denom, sdk.NewInt(st.Stream.FlowRate).MulRaw(3))}, isSender)
				add("StRate", x, &streamtypes.MsgUpdateFlowRate{Receiver: st.Receiver, Sender: xs, FlowRate: st.Stream.FlowRate + 1}, isSender)
				add("StClaim", x, &streamtypes.MsgClaimStream{Receiver: xs, Sender: st.Sender}, isRecv)
				if r.Chance(25) {
					add("StCancel", x, &streamtypes.MsgCancelStream{Receiver: st.Receiver, Sender: xs}, isSender)
				}
				// the same stream named the other way round (x as "sender" of a stream towards the real
				// sender, x as "receiver" of a stream from the real receiver): entitled only if a stream
				// really exists in THAT direction
				revSender := exists(xs, st.Sender)
				revRecv := exists(st.Receiver, xs)
				add("StRateReversed", x, &streamtypes.MsgUpdateFlowRate{Receiver: st.Sender, Sender: xs, FlowRate: st.Stream.FlowRate + 2}, revSender)
				add("StTopUpReversed", x, &streamtypes.MsgTopUpDeposit{Receiver: st.Sender, Sender: xs, Deposit: sdk.NewCoin(st.Stream.Deposit.Denom, sdk.NewInt(st.Stream.FlowRate).MulRaw(2))}, revSender)
				add("StClaimReversed", x, &streamtypes.MsgClaimStream{Receiver: xs, Sender: st.Receiver}, revRecv)
				if r.Chance(25) {
					add("StCancelReversed", x, &streamtypes.MsgCancelStream{Receiver: st.Sender, Sender: xs}, revSender)
				}
			}
		}
		// parameter updates: authority named = the signer itself, or the gov module account
		never := func(o *lab.Obs, who lab.Acct) bool { return false }
		for _, auth := range []string{y.Addr.String(), y.Upper(), lab.GovAuthority(), strings.ToUpper(lab.GovAuthority())} {
			named := y
			if strings.EqualFold(auth, lab.GovAuthority()) {
				named = lab.Acct{}
			}
			ep := obs.EntParams
			ep.EntSigners = y.Addr.String()
			add("EntParams", named, &enttypes.MsgUpdateParams{Authority: auth, Params: ep}, never)
			wp := obs.WrkParams
			wp.FeeRecord++
			add("WrkParams", named, &wrkchaintypes.MsgUpdateParams{Authority: auth, Params: wp}, never)
			bp := obs.BeaconParams
			bp.FeeRecord++
			add("BcnParams", named, &beacontypes.MsgUpdateParams{Authority: auth, Params: bp}, never)
			add("StParams", named, &streamtypes.MsgUpdateParams{Authority: auth, Params: streamtypes.Params{ValidatorFee: sdk.NewDecWithPrec(77, 2)}}, never)
		}
		for _, p := range probes {
			if e.Halted != "" {
				return
			}
			// directly, and (sometimes) wrapped in MsgExec without any grant
			msgs := []sdk.Msg{p.msg}
			wrapped := false
			if p.named.Addr != nil && !p.named.Addr.Equals(y.Addr) && r.Chance(30) {
				msgs = []sdk.Msg{WrapExec(y, []sdk.Msg{p.msg}, 1)}
				wrapped = true
			}
			tx := &TxPlan{Spec: lab.TxSpec{Msgs: msgs, Signers: []lab.Acct{y}, Gas: 1_500_000}, Desc: fmt.Sprintf("probe %s named=%s key=a%d wrapped=%v", p.kind, nameOf(g, p.named), g.idx(y), wrapped)}
			pre := e.Last
			before := e.L.SnapshotStores(e.L.Ctx(), lab.StoreNames)
			resp, ok := e.Deliver(tx)
			if !ok {
				continue
			}
			after := e.L.SnapshotStores(e.L.Ctx(), lab.StoreNames)
			diffs := lab.DiffSnapshots(before, after)
			var customDiffs []lab.KeyDiff
			for _, d := range diffs {
				for _, cs := range custom {
					if d.Store == cs {
						customDiffs = append(customDiffs, d)
					}
				}
			}
			c.Count("probes", 1)
			sameKey := p.named.Addr != nil && p.named.Addr.Equals(y.Addr)
			rel := "named=other"
			if sameKey {
				rel = "named=self"
			} else if p.named.Addr == nil {
				rel = "named=gov"
			}
			if wrapped {
				rel += "/exec-without-grant"
			}
			out := "rejected"
			if resp.Code == 0 {
				out = "ok"
			}
			c.Distinct(fmt.Sprintf("%s/%s/%s", p.kind, rel, out))
			switch {
			case !sameKey && !wrapped:
				// the tx names an account whose key did not sign: must die in the ante stage
				c.Count("probes_wrong_key", 1)
				if len(diffs) > 0 {
					c.Violate("wrong-key-changed-state", p.kind, "%s: the message names %s but was signed by a%d; code %d; state changed: %s", tx.Desc, nameOf(g, p.named), g.idx(y), resp.Code, diffs[0].String())
				}
			case wrapped:
				c.Count("probes_wrong_key", 1)
				if len(customDiffs) > 0 {
					c.Violate("exec-without-grant-changed-state", p.kind, "%s: executed for %s by a%d without any authorisation; code %d; module state changed: %s", tx.Desc, nameOf(g, p.named), g.idx(y), resp.Code, customDiffs[0].String())
				}
			default: // signed by the named account itself
				ent := p.entitled(pre, y)
				if len(customDiffs) > 0 {
					if resp.Code != 0 {
						c.Violate("rejected-but-changed-state", p.kind, "%s: rejected with code %d but module state changed: %s", tx.Desc, resp.Code, customDiffs[0].String())
					} else if !ent {
						c.Violate("not-entitled-changed-state", p.kind, "%s: a%d is not the entitled party in the pre-state (signers %s) yet the message took effect: %s", tx.Desc, g.idx(y), pre.EntParams.EntSigners, customDiffs[0].String())
					} else {
						c.Count("probes_entitled_ok", 1)
					}
				}
				if !ent {
					c.Count("probes_not_entitled", 1)
				}
			}
		}
	}
}

func nameOf(g *Gen, a lab.Acct) string {
	if a.Addr == nil {
		return "gov-authority"
	}
	return fmt.Sprintf("a%d", g.idx(a))
}

// c13GovDelivered: messages executed by the gov module (its account is the "signer") for operations
// that belong to somebody else. One proposal per message, all resolved in the same EndBlock.
func c13GovDelivered(c *fw.Ctx, e *Env, g *Gen) {
	if e.Halted != "" {
		return
	}
	r := e.R
	obs := e.Last
	gov := lab.GovAuthority()
	accts := e.L.Accts
	type gp struct {
		kind string
		msg  sdk.Msg
	}
	var ps []gp
	ps = append(ps, gp{"Whitelist", &enttypes.MsgWhitelistAddress{Address: accts[r.Intn(len(accts))].Addr.String(), Signer: gov, Action: enttypes.WhitelistActionAdd}})
	if len(obs.Whitelist) > 0 {
		ps = append(ps, gp{"Whitelist", &enttypes.MsgWhitelistAddress{Address: obs.Whitelist[r.Intn(len(obs.Whitelist))], Signer: gov, Action: enttypes.WhitelistActionRemove}})
	}
	for _, id := range obs.RaisedQ {
		dec := enttypes.StatusAccepted
		if r.Bool() {
			dec = enttypes.StatusRejected
		}
		ps = append(ps, gp{"PoDecide", &enttypes.MsgProcessUndPurchaseOrder{PurchaseOrderId: id, Decision: dec, Signer: gov}})
		if len(ps) > 5 {
			break
		}
	}
	if len(obs.Wrk) > 0 {
		wc := obs.Wrk[r.Intn(len(obs.Wrk))]
		ps = append(ps, gp{"WrkRec", &wrkchaintypes.MsgRecordWrkChainBlock{WrkchainId: wc.WrkchainId, Height: wc.Lastblock + 1, BlockHash: g.hash(32), Owner: gov}},
			gp{"WrkBuy", &wrkchaintypes.MsgPurchaseWrkChainStateStorage{WrkchainId: wc.WrkchainId, Number: 1, Owner: gov}})
	}
	if len(obs.Beacons) > 0 {
		bc := obs.Beacons[r.Intn(len(obs.Beacons))]
		ps = append(ps, gp{"BcnRec", &beacontypes.MsgRecordBeaconTimestamp{BeaconId: bc.BeaconId, Hash: g.hash(32), SubmitTime: 77, Owner: gov}},
			gp{"BcnBuy", &beacontypes.MsgPurchaseBeaconStateStorage{BeaconId: bc.BeaconId, Number: 1, Owner: gov}})
	}
	if len(obs.Streams) > 0 {
		st := obs.Streams[r.Intn(len(obs.Streams))]
		ps = append(ps, gp{"StTopUp", &streamtypes.MsgTopUpDeposit{Receiver: st.Receiver, Sender: gov, Deposit: sdk.NewCoin(st.Stream.Deposit.Denom, sdk.NewInt(5))}},
			gp{"StRate", &streamtypes.MsgUpdateFlowRate{Receiver: st.Receiver, Sender: gov, FlowRate: st.Stream.FlowRate + 1}},
			gp{"StCancel", &streamtypes.MsgCancelStream{Receiver: st.Receiver, Sender: gov}},
			gp{"StClaim", &streamtypes.MsgClaimStream{Receiver: gov, Sender: st.Sender}})
	}
	a0 := accts[0]
	e.BeginBlock(time.Second)
	var kinds []string
	for _, p := range ps {
		sp, err := newSubmitProposal([]sdk.Msg{p.msg}, a0.Addr.String())
		if err != nil {
			continue
		}
		rs, ok := e.Deliver(&TxPlan{Spec: lab.TxSpec{Msgs: []sdk.Msg{sp}, Signers: []lab.Acct{a0}, Gas: 3_000_000}, Desc: "gov-submit probe " + p.kind + " named=gov-authority"})
		if !ok || rs.Code != 0 {
			continue
		}
		var pid uint64
		if v, ok := lab.EventAttr(rs.Events, "submit_proposal", "proposal_id"); ok {
			fmt.Sscan(v, &pid)
		}
		if vr, ok := e.Deliver(&TxPlan{Spec: lab.TxSpec{Msgs: []sdk.Msg{newVote(a0.Addr, pid)}, Signers: []lab.Acct{a0}, Gas: 1_000_000}, Desc: "gov-vote"}); ok && vr.Code == 0 {
			kinds = append(kinds, p.kind)
		}
	}
	e.EndBlock()
	if e.Halted != "" || len(kinds) == 0 {
		return
	}
	var after lab.Snapshot
	mon := &Monitor{Name: "c13-gov-delivered", AfterEnd: func(e *Env, pre, post *lab.Obs, er abci.ResponseEndBlock) {
		after = e.L.SnapshotStores(e.L.Ctx(), lab.CustomStores)
	}}
	e.Monitors = append(e.Monitors, mon)
	e.BeginBlock(11 * time.Second) // the voting period (10 s) ends: every proposal is tallied and executed in this EndBlock
	var before lab.Snapshot
	if e.Halted == "" {
		before = e.L.SnapshotStores(e.L.Ctx(), lab.CustomStores)
	}
	e.EndBlock()
	e.Monitors = e.Monitors[:len(e.Monitors)-1]
	if e.Halted != "" || before == nil || after == nil {
		return
	}
	c.Count("gov_delivered_probes", int64(len(kinds)))
	for _, k := range kinds {
		c.Distinct(k + "/named=gov/gov-delivered")
	}
	if diffs := lab.DiffSnapshots(before, after); len(diffs) > 0 {
		c.Violate("not-entitled-changed-state", "gov-delivered", "proposals executed by the gov module account (%s), which is entitled to parameter updates only, changed module state: %s (+%d more keys)", strings.Join(kinds, ","), diffs[0].String(), len(diffs)-1)
	}
}
