package props

import (
	"fmt"
	"math/big"
	"sort"
	"strings"
	"time"

	"cosmossdk.io/math"
	abci "github.com/cometbft/cometbft/abci/types"
	sdk "github.com/cosmos/cosmos-sdk/types"

	"verifharness/lab"

	streamtypes "github.com/unification-com/mainchain/x/stream/types"
)

// StreamModel: exact big-integer reference model of payment streams (C10, C11, C12), written from
// the property statements. Times are unix nanoseconds as big integers; no int64, no time.Duration.

var nsPerSec = big.NewInt(1_000_000_000)
var maxTimestampNs = new(big.Int).Mul(big.NewInt(253402300799), big.NewInt(1_000_000_000))

type mStream struct {
	Sender, Receiver string // hex
	Denom            string
	Deposit          *big.Int
	Rate             *big.Int
	Last             *big.Int // ns
	Zero             *big.Int // ns
	// ledger (C10)
	In, Paid, Fees, Refunds *big.Int
	Drained                 bool
}

type StreamModel struct {
	S map[string]*mStream // key sender|receiver (hex)
}

func skey(sender, receiver string) string { return ownerHex(sender) + "|" + ownerHex(receiver) }

func tNs(t time.Time) *big.Int {
	x := new(big.Int).Mul(big.NewInt(t.Unix()), nsPerSec)
	return x.Add(x, big.NewInt(int64(t.Nanosecond())))
}

func wholeSeconds(fromNs, toNs *big.Int) *big.Int {
	d := new(big.Int).Sub(toNs, fromNs)
	if d.Sign() <= 0 {
		return big.NewInt(0)
	}
	return d.Quo(d, nsPerSec)
}

// release computes what a release at `now` pays (statement of C11).
func (s *mStream) release(now *big.Int) *big.Int {
	if s.Deposit.Sign() == 0 {
		return big.NewInt(0)
	}
	if now.Cmp(s.Zero) >= 0 {
		return new(big.Int).Set(s.Deposit)
	}
	amt := new(big.Int).Mul(s.Rate, wholeSeconds(s.Last, now))
	if amt.Cmp(s.Deposit) > 0 {
		amt.Set(s.Deposit)
	}
	return amt
}

// feeOf = floor(released x rate) with rate given as an 18-decimal sdk.Dec.
func feeOf(released *big.Int, rate sdk.Dec) *big.Int {
	f := new(big.Int).Mul(released, rate.BigInt())
	return f.Quo(f, new(big.Int).Exp(big.NewInt(10), big.NewInt(18), nil))
}

type deltaMap map[string]map[string]*big.Int // account(bech32) -> denom -> delta

func (d deltaMap) add(acct, denom string, x *big.Int) {
	if d[acct] == nil {
		d[acct] = map[string]*big.Int{}
	}
	if d[acct][denom] == nil {
		d[acct][denom] = new(big.Int)
	}
	d[acct][denom].Add(d[acct][denom], x)
}

func bech(hexAddr string) string {
	var b []byte
	fmt.Sscanf(hexAddr, "%x", &b)
	return sdk.AccAddress(b).String()
}

// settle applies a release to the model and the expected balance deltas.
func (m *StreamModel) settle(s *mStream, now *big.Int, feeRate sdk.Dec, exp deltaMap) (released, fee *big.Int) {
	released = s.release(now)
	fee = feeOf(released, feeRate)
	toRecv := new(big.Int).Sub(released, fee)
	s.Deposit = new(big.Int).Sub(s.Deposit, released)
	s.Last = new(big.Int).Set(now)
	s.Paid.Add(s.Paid, toRecv)
	s.Fees.Add(s.Fees, fee)
	exp.add(bech(s.Receiver), s.Denom, toRecv)
	exp.add(lab.ModAddr("fee_collector").String(), s.Denom, fee)
	exp.add(lab.ModAddr("stream").String(), s.Denom, new(big.Int).Neg(released))
	return
}

type streamEvent struct {
	Kind     string
	Key      string
	Released *big.Int
	Fee      *big.Int
	Refund   *big.Int
	Before   string // "before-zero" | "at-or-after-zero"
	Mag      string
}

func magOf(x *big.Int) string {
	n := x.BitLen()
	switch {
	case n == 0:
		return "0"
	case n <= 31:
		return "<2^31"
	case n <= 53:
		return "<2^53"
	case n <= 63:
		return "<2^63"
	case n <= 64:
		return "<2^64"
	case n <= 128:
		return "<2^128"
	}
	return ">=2^128"
}

// Apply applies the stream leaves of a successful tx; returns expected balance deltas and events.
func (m *StreamModel) Apply(leaves []sdk.Msg, now time.Time, feeRate sdk.Dec, viol func(rule, sig, msg string)) (deltaMap, []streamEvent, bool) {
	exp := deltaMap{}
	var evs []streamEvent
	nowNs := tNs(now)
	onlyStream := true
	for _, lf := range leaves {
		switch x := lf.(type) {
		case *streamtypes.MsgCreateStream:
			k := skey(x.Sender, x.Receiver)
			if m.S[k] != nil {
				viol("create-over-existing", "stream", fmt.Sprintf("stream %s created while it already exists", k))
			}
			rate := big.NewInt(x.FlowRate)
			dep := x.Deposit.Amount.BigInt()
			s := &mStream{Sender: ownerHex(x.Sender), Receiver: ownerHex(x.Receiver), Denom: x.Deposit.Denom, Deposit: dep, Rate: rate, Last: nowNs,
				In: new(big.Int).Set(dep), Paid: new(big.Int), Fees: new(big.Int), Refunds: new(big.Int)}
			dur := new(big.Int).Quo(dep, rate)
			s.Zero = new(big.Int).Add(nowNs, new(big.Int).Mul(dur, nsPerSec))
			m.S[k] = s
			exp.add(bech(s.Sender), s.Denom, new(big.Int).Neg(dep))
			exp.add(lab.ModAddr("stream").String(), s.Denom, dep)
			evs = append(evs, streamEvent{Kind: "create", Key: k, Mag: magOf(dur)})
		case *streamtypes.MsgClaimStream:
			k := skey(x.Sender, x.Receiver)
			s := m.S[k]
			if s == nil {
				viol("op-on-unknown-stream", "claim", fmt.Sprintf("claim on unknown stream %s succeeded", k))
				continue
			}
			before := "before-zero"
			if nowNs.Cmp(s.Zero) >= 0 {
				before = "at-or-after-zero"
			}
			rel, fee := m.settle(s, nowNs, feeRate, exp)
			evs = append(evs, streamEvent{Kind: "claim", Key: k, Released: rel, Fee: fee, Before: before, Mag: magOf(rel)})
		case *streamtypes.MsgTopUpDeposit:
			k := skey(x.Sender, x.Receiver)
			s := m.S[k]
			if s == nil {
				viol("op-on-unknown-stream", "topup", fmt.Sprintf("top-up of unknown stream %s succeeded", k))
				continue
			}
			a := x.Deposit.Amount.BigInt()
			ext := new(big.Int).Mul(new(big.Int).Quo(a, s.Rate), nsPerSec)
			ev := streamEvent{Kind: "topup", Key: k, Before: "before-zero", Mag: magOf(a)}
			if nowNs.Cmp(s.Zero) >= 0 { // expired: implied settlement, funding restarts now
				ev.Before = "at-or-after-zero"
				if s.Deposit.Sign() > 0 {
					ev.Released, ev.Fee = m.settle(s, nowNs, feeRate, exp)
				} else {
					ev.Kind = "topup-drained"
				}
				s.Last = new(big.Int).Set(nowNs)
				s.Zero = new(big.Int).Add(nowNs, ext)
			} else {
				s.Zero = new(big.Int).Add(s.Zero, ext)
			}
			s.Deposit = new(big.Int).Add(s.Deposit, a)
			s.In.Add(s.In, a)
			exp.add(bech(s.Sender), s.Denom, new(big.Int).Neg(a))
			exp.add(lab.ModAddr("stream").String(), s.Denom, a)
			evs = append(evs, ev)
		case *streamtypes.MsgUpdateFlowRate:
			k := skey(x.Sender, x.Receiver)
			s := m.S[k]
			if s == nil {
				viol("op-on-unknown-stream", "rate", fmt.Sprintf("rate change of unknown stream %s succeeded", k))
				continue
			}
			ev := streamEvent{Kind: "rate", Key: k, Before: "before-zero"}
			if nowNs.Cmp(s.Zero) >= 0 {
				ev.Before = "at-or-after-zero"
			}
			if s.Deposit.Sign() > 0 {
				ev.Released, ev.Fee = m.settle(s, nowNs, feeRate, exp)
				ev.Mag = magOf(ev.Released)
			}
			s.Rate = big.NewInt(x.FlowRate)
			// recomputed from the settled remainder
			s.Zero = new(big.Int).Add(nowNs, new(big.Int).Mul(new(big.Int).Quo(s.Deposit, s.Rate), nsPerSec))
			if s.Deposit.Sign() == 0 {
				s.Last = new(big.Int).Set(nowNs)
			}
			evs = append(evs, ev)
		case *streamtypes.MsgCancelStream:
			k := skey(x.Sender, x.Receiver)
			s := m.S[k]
			if s == nil {
				viol("op-on-unknown-stream", "cancel", fmt.Sprintf("cancel of unknown stream %s succeeded", k))
				continue
			}
			ev := streamEvent{Kind: "cancel", Key: k, Before: "before-zero"}
			if nowNs.Cmp(s.Zero) >= 0 {
				ev.Before = "at-or-after-zero"
			}
			if s.Deposit.Sign() > 0 {
				ev.Released, ev.Fee = m.settle(s, nowNs, feeRate, exp)
			}
			ev.Refund = new(big.Int).Set(s.Deposit)
			ev.Mag = magOf(ev.Refund)
			s.Refunds.Add(s.Refunds, s.Deposit)
			exp.add(bech(s.Sender), s.Denom, s.Deposit)
			exp.add(lab.ModAddr("stream").String(), s.Denom, new(big.Int).Neg(s.Deposit))
			// conservation over the stream's whole life
			tot := new(big.Int).Add(s.Paid, s.Fees)
			tot.Add(tot, s.Refunds)
			if tot.Cmp(s.In) != 0 {
				viol("stream-ledger", "cancel", fmt.Sprintf("stream %s: deposited %s != paid %s + fees %s + refunds %s", k, s.In, s.Paid, s.Fees, s.Refunds))
			}
			delete(m.S, k)
			evs = append(evs, ev)
		default:
			onlyStream = false
		}
	}
	return exp, evs, onlyStream
}

// CompareState checks every stream record in state against the model and the C11 sustain
// invariant; on a mismatch the model adopts the observed record (one root cause, one report).
func (m *StreamModel) CompareState(o *lab.Obs, now time.Time, viol func(rule, sig, msg string)) {
	nowNs := tNs(now)
	seen := map[string]bool{}
	for _, se := range o.Streams {
		k := skey(se.Sender, se.Receiver)
		seen[k] = true
		s := m.S[k]
		st := se.Stream
		dep := st.Deposit.Amount.BigInt()
		rate := big.NewInt(st.FlowRate)
		last, zero := tNs(st.LastOutflowTime), tNs(st.DepositZeroTime)
		if s == nil {
			viol("stream-unexpected", "state", fmt.Sprintf("stream %s in state, unknown to the model", k))
			m.S[k] = &mStream{Sender: ownerHex(se.Sender), Receiver: ownerHex(se.Receiver), Denom: st.Deposit.Denom, Deposit: dep, Rate: rate, Last: last, Zero: zero, In: new(big.Int).Set(dep), Paid: new(big.Int), Fees: new(big.Int), Refunds: new(big.Int)}
			continue
		}
		if dep.Cmp(s.Deposit) != 0 || st.Deposit.Denom != s.Denom {
			viol("stream-deposit", magOf(s.Deposit), fmt.Sprintf("stream %s remaining deposit %s%s, model %s%s", k, dep, st.Deposit.Denom, s.Deposit, s.Denom))
			s.Deposit = dep
		}
		if rate.Cmp(s.Rate) != 0 {
			viol("stream-rate", "state", fmt.Sprintf("stream %s flow rate %s, model %s", k, rate, s.Rate))
			s.Rate = rate
		}
		// domain bound: advertised times are protobuf timestamps (<= 9999-12-31T23:59:59Z); a zero
		// time beyond that cannot be represented and is outside the checked domain
		outOfDomain := s.Zero.Cmp(maxTimestampNs) > 0
		if outOfDomain {
			s.Zero = zero
		}
		if zero.Cmp(s.Zero) != 0 {
			dur := wholeSeconds(s.Last, s.Zero)
			cls := "duration<=292y"
			if dur.Cmp(big.NewInt(9_223_372_036)) > 0 {
				cls = "duration>292y"
			}
			viol("deposit-zero-time", cls, fmt.Sprintf("stream %s advertises deposit-zero time %s, statement gives %s (deposit %s, rate %s)", k, st.DepositZeroTime.UTC().Format(time.RFC3339Nano), nsToTime(s.Zero), s.Deposit, s.Rate))
			s.Zero = zero
		}
		if s.Deposit.Sign() == 0 {
			s.Last = last // a drained stream has no release schedule; funding restarts at the next top-up
		}
		if last.Cmp(s.Last) != 0 {
			cls := "active"
			if s.Drained {
				cls = "after-drain"
			}
			viol("last-release-time", cls, fmt.Sprintf("stream %s last release time %s, model %s", k, st.LastOutflowTime.UTC().Format(time.RFC3339Nano), nsToTime(s.Last)))
			s.Last = last
		}
		s.Drained = s.Deposit.Sign() == 0
		// at every moment the deposit sustains the rate from the last release until zero time
		// (only meaningful while the stream is active: at or after the advertised zero time the whole
		// remainder is due anyway)
		need := new(big.Int).Mul(s.Rate, wholeSeconds(s.Last, s.Zero))
		if s.Zero.Cmp(nowNs) > 0 && !outOfDomain && s.Deposit.Cmp(need) < 0 {
			viol("deposit-cannot-sustain-rate", magOf(need), fmt.Sprintf("stream %s: deposit %s < rate %s x %s s between last release and advertised zero time (%s)", k, s.Deposit, s.Rate, wholeSeconds(s.Last, s.Zero), need))
		}
	}
	for k := range m.S {
		if !seen[k] {
			viol("stream-missing", "state", fmt.Sprintf("stream %s exists in the model but not in state", k))
			delete(m.S, k)
		}
	}
}

func nsToTime(ns *big.Int) string {
	q, r := new(big.Int).QuoRem(ns, nsPerSec, new(big.Int))
	if !q.IsInt64() {
		return ns.String() + "ns"
	}
	return time.Unix(q.Int64(), r.Int64()).UTC().Format(time.RFC3339Nano)
}

func coinsDelta(pre, post sdk.Coins, denom string) *big.Int {
	return new(big.Int).Sub(post.AmountOf(denom).BigInt(), pre.AmountOf(denom).BigInt())
}

// NewStreamMonitor wires the model into an Env. filter selects the rules that count for the
// property that runs it.
func NewStreamMonitor(e *Env, filter func(rule string) bool) (*StreamModel, *Monitor) {
	m := &StreamModel{S: map[string]*mStream{}}
	viol := func(rule, sig, msg string) {
		if filter == nil || filter(rule) {
			e.C.Violate(rule, sig, "%s | trace: %s", msg, strings.Join(e.TraceTail(5), " ; "))
		}
	}
	escrow := lab.ModAddr("stream").String()
	mon := &Monitor{Name: "stream"}
	mon.AfterTx = func(e *Env, tx *TxPlan, pre, post *lab.Obs, resp abci.ResponseDeliverTx) {
		leaves, _ := Flatten(tx.Spec.Msgs)
		hasStream := false
		for _, l := range leaves {
			if strings.HasPrefix(sdk.MsgTypeURL(l), "/mainchain.stream") {
				hasStream = true
			}
		}
		if resp.Code != 0 || !hasStream {
			// no stream effect: escrow must not move, records must not change
			if !pre.Accts[escrow].Bal.IsEqual(post.Accts[escrow].Bal) {
				cls := "non-stream-tx"
				if hasStream {
					cls = "failed-stream-tx"
				}
				viol("stream-escrow-moved", cls, fmt.Sprintf("tx %s (code %d) changed the stream escrow from %s to %s", tx.Desc, resp.Code, pre.Accts[escrow].Bal, post.Accts[escrow].Bal))
			}
			m.CompareState(post, e.L.Time, viol)
			return
		}
		exp, evs, onlyStream := m.Apply(leaves, e.L.Time, pre.StreamParams.ValidatorFee, viol)
		for _, ev := range evs {
			e.C.Count("stream_"+ev.Kind, 1)
			if ev.Released != nil {
				e.C.Count("releases", 1)
				e.C.Distinct(fmt.Sprintf("%s/%s/released%s/fee=%s", ev.Kind, ev.Before, magOf(ev.Released), pre.StreamParams.ValidatorFee))
			} else {
				e.C.Distinct(fmt.Sprintf("%s/%s/%s", ev.Kind, ev.Before, ev.Mag))
			}
		}
		m.CompareState(post, e.L.Time, viol)
		if !onlyStream {
			return
		}
		// balance deltas of every account against the model's prediction
		payer := feePayerOf(tx)
		if tx.Spec.Granter != nil {
			payer = tx.Spec.Granter.String()
		}
		denoms := map[string]bool{}
		for _, d := range exp {
			for dn := range d {
				denoms[dn] = true
			}
		}
		for _, c := range tx.Spec.Fee {
			denoms[c.Denom] = true
		}
		var accts []string
		for a := range post.Accts {
			accts = append(accts, a)
		}
		sort.Strings(accts)
		for dn := range denoms {
			for _, a := range accts {
				want := new(big.Int)
				if exp[a] != nil && exp[a][dn] != nil {
					want.Set(exp[a][dn])
				}
				fee := tx.Spec.Fee.AmountOf(dn).BigInt()
				if a == payer {
					want.Sub(want, fee)
				}
				if a == lab.ModAddr("fee_collector").String() {
					want.Add(want, fee)
				}
				got := coinsDelta(pre.Accts[a].Bal, post.Accts[a].Bal, dn)
				if got.Cmp(want) != 0 {
					role := "account"
					switch a {
					case escrow:
						role = "escrow"
					case lab.ModAddr("fee_collector").String():
						role = "fee-collector"
					}
					viol("stream-balance-delta", role, fmt.Sprintf("tx %s moved %s%s for %s (%s), the statement's rules give %s (fee rate %s)", tx.Desc, got, dn, a, role, want, pre.StreamParams.ValidatorFee))
				}
			}
		}
	}
	backed := func(o *lab.Obs, where string) {
		sum := sdk.NewCoins()
		for _, s := range o.Streams {
			sum = sum.Add(s.Stream.Deposit)
		}
		if !o.Accts[escrow].Bal.IsEqual(sum) {
			viol("stream-escrow-vs-deposits", where, fmt.Sprintf("stream escrow holds %s, sum of remaining deposits %s (height %d)", o.Accts[escrow].Bal, sum, o.Height))
		}
		// coins in the escrow that no stream record accounts for can be claimed by no receiver and are
		// returned by no cancel: stranded (the C12 side of the same comparison)
		for _, b := range o.Accts[escrow].Bal {
			if b.Amount.GT(sum.AmountOf(b.Denom)) {
				viol("stranded-surplus-in-escrow", where, fmt.Sprintf("stream escrow holds %s but the stream records account for %s%s only: %s%s belong to no stream (height %d)", b, sum.AmountOf(b.Denom), b.Denom, b.Amount.Sub(sum.AmountOf(b.Denom)), b.Denom, o.Height))
			}
		}
	}
	mon.AfterBegin = func(e *Env, pre, post *lab.Obs, resp abci.ResponseBeginBlock) {
		if !pre.Accts[escrow].Bal.IsEqual(post.Accts[escrow].Bal) {
			viol("stream-escrow-moved", "begin-block", fmt.Sprintf("BeginBlock changed the stream escrow %s -> %s", pre.Accts[escrow].Bal, post.Accts[escrow].Bal))
		}
	}
	mon.AfterBlock = func(e *Env, o *lab.Obs) {
		backed(o, "committed")
		m.CompareState(o, e.L.Time, viol)
		e.C.Count("stream_boundaries", 1)
	}
	return m, mon
}

func bigFromInt(i math.Int) *big.Int { return i.BigInt() }
