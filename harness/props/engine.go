package props

import (
	"encoding/json"
	"fmt"
	banktypes "github.com/cosmos/cosmos-sdk/x/bank/types"
	"strings"
	"time"

	"cosmossdk.io/math"
	dbm "github.com/cometbft/cometbft-db"
	abci "github.com/cometbft/cometbft/abci/types"
	sdk "github.com/cosmos/cosmos-sdk/types"
	"github.com/cosmos/cosmos-sdk/x/authz"
	"github.com/cosmos/cosmos-sdk/x/group"

	"verifharness/fw"
	"verifharness/lab"

	beacontypes "github.com/unification-com/mainchain/x/beacon/types"
	enttypes "github.com/unification-com/mainchain/x/enterprise/types"
	streamtypes "github.com/unification-com/mainchain/x/stream/types"
	wrkchaintypes "github.com/unification-com/mainchain/x/wrkchain/types"
)

// TxPlan is one generated transaction, fully concrete.
type TxPlan struct {
	Spec lab.TxSpec
	Desc string
}

// Monitor observes an execution. All hooks are optional.
type Monitor struct {
	Name       string
	AfterBegin func(e *Env, pre, post *lab.Obs, resp abci.ResponseBeginBlock)
	AfterTx    func(e *Env, tx *TxPlan, pre, post *lab.Obs, resp abci.ResponseDeliverTx)
	AfterEnd   func(e *Env, pre, post *lab.Obs, resp abci.ResponseEndBlock)
	AfterBlock func(e *Env, o *lab.Obs) // after Commit, on the query context
}

// Env is the per-case execution environment shared by generators and monitors.
type Env struct {
	C        *fw.Ctx
	L        *lab.Lab
	R        *fw.Rand
	Monitors []*Monitor
	Snap     bool // take raw store snapshots around every tx (PreSnap/PostSnap)
	PreSnap  lab.Snapshot
	PostSnap lab.Snapshot
	Halted   string // non-empty once a block phase panicked
	Trace    []string
	Last     *lab.Obs
	LastQ    *lab.Obs // the observation of the committed state made straight after the last Commit
	NTx      int
	BlockTxs [][]byte // raw txs delivered in the current block
	// SpendableAtNewTime: every lab account's spendable coins on the pre-BeginBlock state but
	// evaluated at the new block's time (so vesting progress is not mistaken for a credit)
	SpendableAtNewTime map[string]sdk.Coins
	BlockEvents        []abci.Event // all events of the current block (begin, txs, end)
	// recorder of blocks (for replicas)
	Record bool
	Blocks []RecBlock
	cur    *RecBlock

	nImports     int
	forceMidRead bool
	// MidBlockReadPct: share of blocks in which the committed state is read (all getters, all query
	// endpoints) between EndBlock and Commit
	MidBlockReadPct int
	// PreCheckPct: share of the transactions that are simulated (a third) or sent through CheckTx
	// (two thirds) right before they are delivered
	PreCheckPct int
	// DupSignersPct: share of the generated enterprise signer lists that name accounts repeatedly
	// (only where no oracle depends on the statement's - ambiguous - signer count for such lists)
	DupSignersPct int
	// GovRollbackPct: share of single-message governance proposals that get a failing second message
	GovRollbackPct int
	// GovExecBlockTxs: delivered (once) in the block whose EndBlock executes the next proposal
	GovExecBlockTxs []*TxPlan
	// ExtraAddrs: addresses beyond the lab accounts that hold custom-module state (receivers of
	// streams, whitelist entries) - the list checks enumerate them as well
	ExtraAddrs []sdk.AccAddress
}

type RecBlock struct {
	TimeNs int64    `json:"t"`
	Txs    [][]byte `json:"txs"`
}

func NewEnv(c *fw.Ctx, o lab.Options) *Env {
	o.Home = c.Scratch + "/home"
	l := lab.New(dbm.NewMemDB(), o)
	l.OnReadPanic = readPanicHook(c)
	return &Env{C: c, L: l, R: c.Rng, GovRollbackPct: 15, MidBlockReadPct: 12, PreCheckPct: 20}
}

// readPanicHook: a keeper getter / iterator that panics while the state is being read ends the case
// (nothing can be observed any more: inconclusive) - except for the properties whose subject IS
// that read surface: what an export hands out (C15, the export walks the same iterators) and what
// the list queries are built from (C20). There it is the violation itself.
func readPanicHook(c *fw.Ctx) func(p interface{}) {
	return func(p interface{}) {
		if c.Prop == "C15" || c.Prop == "C20" {
			c.Violate("state-read-panicked", "observe", "reading the module state through the keepers' getters / iterators panicked: %s", firstN(fmt.Sprint(p), 300))
		}
	}
}

func (e *Env) tracef(format string, a ...interface{}) {
	s := fmt.Sprintf(format, a...)
	if len(e.Trace) < 400 {
		e.Trace = append(e.Trace, s)
	}
	e.C.Logf("%s", s)
}

// TraceTail returns the last n trace lines (for samples and violation details).
func (e *Env) TraceTail(n int) []string {
	if len(e.Trace) <= n {
		return e.Trace
	}
	return e.Trace[len(e.Trace)-n:]
}

func protect(phase string, halted *string, f func()) {
	defer func() {
		if r := recover(); r != nil {
			*halted = fmt.Sprintf("%s panicked: %v", phase, r)
		}
	}()
	f()
}

// BeginBlock starts a block dt after the previous one and runs the AfterBegin hooks.
func (e *Env) BeginBlock(dt time.Duration) {
	if e.Halted != "" {
		return
	}
	if e.Last == nil {
		e.Last = e.L.Observe(e.L.Ctx())
	}
	pre := e.Last
	var resp abci.ResponseBeginBlock
	{
		cx := e.L.Ctx().WithBlockTime(e.L.Time.Add(dt))
		e.SpendableAtNewTime = map[string]sdk.Coins{}
		for _, a := range e.L.Accts {
			e.SpendableAtNewTime[a.Addr.String()] = e.L.App.BankKeeper.SpendableCoins(cx, a.Addr)
		}
	}
	e.BlockEvents = nil
	protect("BeginBlock", &e.Halted, func() { resp = e.L.Begin(dt) })
	e.BlockEvents = append(e.BlockEvents, resp.Events...)
	if e.Halted != "" {
		e.tracef("h=%d HALT %s", e.L.Height, e.Halted)
		return
	}
	if e.Record {
		e.Blocks = append(e.Blocks, RecBlock{TimeNs: e.L.Time.UnixNano()})
		e.cur = &e.Blocks[len(e.Blocks)-1]
	}
	e.tracef("h=%d begin t=+%s", e.L.Height, dt)
	post := e.L.Observe(e.L.Ctx())
	for _, m := range e.Monitors {
		if m.AfterBegin != nil {
			m.AfterBegin(e, pre, post, resp)
		}
	}
	e.Last = post
}

// Deliver executes one planned tx inside the current block and runs the AfterTx hooks.
func (e *Env) Deliver(tx *TxPlan) (abci.ResponseDeliverTx, bool) {
	if e.Halted != "" {
		return abci.ResponseDeliverTx{}, false
	}
	bz, err := e.L.BuildTx(tx.Spec)
	if err != nil {
		e.tracef("  tx %s: not encodable: %v", tx.Desc, err)
		return abci.ResponseDeliverTx{}, false
	}
	return e.DeliverRaw(tx, bz), true
}

func (e *Env) DeliverRaw(tx *TxPlan, bz []byte) abci.ResponseDeliverTx {
	pre := e.Last
	if e.Snap {
		e.PreSnap = e.L.SnapshotStores(e.L.Ctx(), lab.StoreNames)
	}
	if e.cur != nil {
		e.cur.Txs = append(e.cur.Txs, bz)
	}
	// What a real node does around a transaction besides delivering it: clients simulate it for a gas
	// estimate, the mempool checks it. Neither may leave anything behind that changes the result of
	// the delivery or of anything later (the oracles of the property judge that; C01's replicas,
	// which only ever see the block, would disagree).
	if e.PreCheckPct > 0 {
		if x := e.R.Intn(100); x < e.PreCheckPct {
			func() {
				defer func() {
					if p := recover(); p != nil {
						e.C.Count("pre_delivery_check_panics", 1)
					}
				}()
				if x%3 == 0 {
					e.L.App.Simulate(bz)
					e.C.Count("simulated_before_delivery", 1)
				} else {
					e.L.Check(bz)
					e.C.Count("checked_before_delivery", 1)
				}
			}()
		}
	}
	resp := e.L.Deliver(bz)
	e.BlockEvents = append(e.BlockEvents, resp.Events...)
	e.NTx++
	lg := resp.Log
	if resp.Code == 0 {
		lg = ""
	}
	if len(lg) > 110 {
		lg = lg[:110]
	}
	e.tracef("  tx %s -> code=%d %s", tx.Desc, resp.Code, lg)
	if resp.Code == 0 { // which kinds of operation the history really got through (top level only)
		for _, m := range tx.Spec.Msgs {
			u := sdk.MsgTypeURL(m)
			e.C.Count("ok_"+u[strings.LastIndex(u, ".")+1:], 1)
		}
	}
	post := e.L.Observe(e.L.Ctx())
	if e.Snap {
		e.PostSnap = e.L.SnapshotStores(e.L.Ctx(), lab.StoreNames)
	}
	for _, m := range e.Monitors {
		if m.AfterTx != nil {
			m.AfterTx(e, tx, pre, post, resp)
		}
	}
	e.Last = post
	return resp
}

// EndBlock ends and commits the current block, running AfterEnd and AfterBlock hooks.
func (e *Env) EndBlock() []byte {
	if e.Halted != "" {
		return nil
	}
	pre := e.Last
	var er abci.ResponseEndBlock
	protect("EndBlock", &e.Halted, func() { er = e.L.EndNoCommit() })
	e.BlockEvents = append(e.BlockEvents, er.Events...)
	if e.Halted != "" {
		e.tracef("h=%d HALT %s", e.L.Height, e.Halted)
		return nil
	}
	// A node serves client queries from the last COMMITTED state while the next block is being
	// executed. In a share of the blocks the whole read surface is exercised at exactly that moment
	// (straight after EndBlock - before anything else reads the new state - and before Commit): every keeper getter through Observe on the committed-state
	// context - which must still show the previous boundary - and every query endpoint through
	// app.Query. Reads must not leave anything behind that changes later answers or results.
	if force := e.forceMidRead; (e.MidBlockReadPct > 0 && e.R.Chance(e.MidBlockReadPct)) || force {
		e.forceMidRead = false
		func() {
			defer func() {
				if p := recover(); p != nil {
					e.C.Count("mid_block_read_panics", 1)
				}
			}()
			mid := e.L.Observe(e.L.QueryCtx())
			if ref := e.LastQ; ref != nil && mid.Height == ref.Height {
				e.C.Count("mid_block_reads_compared", 1)
				if a, b := obsDigest(mid), obsDigest(ref); a != b {
					e.C.Violate("committed-state-read-not-isolated", "mid-block", "a read of the committed state (height %d) while block %d was executing does not show what the same read showed straight after the last Commit: %s", mid.Height, e.L.Height, firstDiff(b, a))
				}
			}
			for _, q := range c20Queries(e.L) {
				e.L.App.Query(abci.RequestQuery{Path: q.path, Data: q.data})
			}
			e.C.Count("mid_block_read_sweeps", 1)
		}()
	}
	post := e.L.Observe(e.L.Ctx())
	for _, m := range e.Monitors {
		if m.AfterEnd != nil {
			m.AfterEnd(e, pre, post, er)
		}
	}
	var hash []byte
	protect("Commit", &e.Halted, func() { hash = e.L.Commit() })
	if e.Halted != "" {
		e.tracef("h=%d HALT %s", e.L.Height, e.Halted)
		return nil
	}
	q := e.L.Observe(e.L.QueryCtx())
	for _, m := range e.Monitors {
		if m.AfterBlock != nil {
			m.AfterBlock(e, q)
		}
	}
	if len(q.ParamsMismatch) > 0 {
		// the keeper reports parameters the store does not hold (the models use the stored ones).
		// Owned by the properties about parameters taking effect (C16) and the fee parameters (C06);
		// elsewhere it is counted and shows through the property's own rules.
		e.C.Count("params_reported_vs_stored_mismatches", 1)
		if e.C.Prop == "C16" || e.C.Prop == "C06" || e.C.Prop == "C14" { // C14: a rolled-back execution left something behind
			for _, mm := range q.ParamsMismatch {
				e.C.Violate("reported-params-differ-from-store", strings.SplitN(mm, ":", 2)[0], "at height %d the module answers with parameters that are not the stored ones - %s | trace: %s", q.Height, oneLine(mm), strings.Join(e.TraceTail(4), " ; "))
			}
		}
	}
	e.Last = q
	e.LastQ = q
	return hash
}

// obsDigest: everything an observation holds except the context's own height / time and the
// reported-vs-stored note (canonical JSON; maps are written in key order).
func obsDigest(o *lab.Obs) string {
	c := *o
	c.Height, c.Time, c.ParamsMismatch = 0, 0, nil
	bz, err := json.Marshal(c)
	if err != nil {
		return "unencodable: " + err.Error()
	}
	return string(bz)
}

// firstDiff shows the surroundings of the first byte at which two digests differ.
func firstDiff(want, got string) string {
	i := 0
	for i < len(want) && i < len(got) && want[i] == got[i] {
		i++
	}
	cut := func(s string) string {
		lo, hi := i-80, i+80
		if lo < 0 {
			lo = 0
		}
		if hi > len(s) {
			hi = len(s)
		}
		if lo > len(s) {
			lo = len(s)
		}
		return s[lo:hi]
	}
	return fmt.Sprintf("after the Commit ...%s... | mid-block ...%s...", cut(want), cut(got))
}

// Block runs one block with the given transactions.
func (e *Env) Block(dt time.Duration, txs ...*TxPlan) []abci.ResponseDeliverTx {
	e.BeginBlock(dt)
	var rs []abci.ResponseDeliverTx
	for _, tx := range txs {
		r, ok := e.Deliver(tx)
		if ok {
			rs = append(rs, r)
		}
	}
	e.EndBlock()
	return rs
}

// Gov pushes msgs through a real governance proposal (2 blocks). Returns true if it passed.
func (e *Env) Gov(desc string, msgs ...sdk.Msg) bool {
	return e.GovAlong(desc, nil, msgs...)
}

// GovAlong is Gov with further transactions delivered in the block that submits the proposal (so
// that their effects - e.g. decisions tallied in the next BeginBlock - meet the proposal's
// execution in the EndBlock of that next block).
func (e *Env) GovAlong(desc string, along []*TxPlan, msgs ...sdk.Msg) bool {
	if e.Halted != "" {
		return false
	}
	a0 := e.L.Accts[0]
	if e.GovRollbackPct > 0 && len(msgs) == 1 && e.R.Chance(e.GovRollbackPct) {
		// all or none also holds inside one proposal: a later message that fails makes x/gov discard
		// the whole branch - the proposal ends FAILED and nothing of the first message may remain,
		// neither in the store nor in what the modules do afterwards
		msgs = append(msgs, banktypes.NewMsgSend(lab.ModAddr("gov"), a0.Addr, sdk.NewCoins(sdk.NewCoin(lab.Denom, math.NewIntWithDecimal(1, 40)))))
		desc += " + failing message (rolled back)"
		e.C.Count("gov_proposals_rolled_back", 1)
	}
	e.BeginBlock(time.Second)
	for _, t := range along {
		e.Deliver(t)
	}
	sp, err := newSubmitProposal(msgs, a0.Addr.String())
	if err != nil {
		e.tracef("  gov %s: cannot build proposal: %v", desc, err)
		e.EndBlock()
		return false
	}
	r, ok := e.Deliver(&TxPlan{Spec: lab.TxSpec{Msgs: []sdk.Msg{sp}, Signers: []lab.Acct{a0}, Gas: 3_000_000}, Desc: "gov-submit " + desc})
	if !ok || r.Code != 0 {
		e.EndBlock()
		return false
	}
	var pid uint64
	if v, ok := lab.EventAttr(r.Events, "submit_proposal", "proposal_id"); ok {
		fmt.Sscan(v, &pid)
	}
	e.Deliver(&TxPlan{Spec: lab.TxSpec{Msgs: []sdk.Msg{newVote(a0.Addr, pid)}, Signers: []lab.Acct{a0}, Gas: 1_000_000}, Desc: "gov-vote"})
	e.EndBlock()
	e.BeginBlock(11 * time.Second)
	// transactions delivered in the very block whose EndBlock executes the proposal
	for _, t := range e.GovExecBlockTxs {
		e.Deliver(t)
	}
	e.GovExecBlockTxs = nil
	// the block whose EndBlock executes the proposal: the committed state (still the old parameters)
	// is read between that EndBlock and the Commit in most of these blocks
	e.forceMidRead = e.MidBlockReadPct > 0 && e.R.Chance(70)
	e.EndBlock()
	if e.Halted != "" {
		return false
	}
	p, found := e.L.App.GovKeeper.GetProposal(e.L.Ctx(), pid)
	passed := found && p.Status.String() == "PROPOSAL_STATUS_PASSED"
	e.tracef("  gov %s: proposal %d status %v", desc, pid, p.Status)
	return passed
}

// feePayerOf is the account the fee of tx is charged to before fee grants are considered: the
// explicit fee payer when one is set (it must be among the signers), else the first signer.
func feePayerOf(tx *TxPlan) string {
	if tx.Spec.Payer != nil {
		return tx.Spec.Payer.String()
	}
	return tx.Spec.Signers[0].Addr.String()
}

// ---------------------------------------------------------------------------------------------
// message-tree helpers

// Flatten expands authz.MsgExec wrappers (any depth) into the list of leaf messages in execution
// order. nested[i] tells whether leaf i was wrapped.
func Flatten(msgs []sdk.Msg) (leaves []sdk.Msg, nested []bool) {
	var walk func(ms []sdk.Msg, n bool)
	walk = func(ms []sdk.Msg, n bool) {
		for _, m := range ms {
			if ex, ok := m.(*authz.MsgExec); ok {
				inner, err := ex.GetMessages()
				if err == nil {
					walk(inner, true)
					continue
				}
			}
			// a group proposal submitted with Exec_TRY executes its messages in the submitting tx
			if gp, ok := m.(*group.MsgSubmitProposal); ok && gp.Exec == group.Exec_EXEC_TRY {
				inner, err := gp.GetMsgs()
				if err == nil {
					walk(inner, true)
					continue
				}
			}
			leaves = append(leaves, m)
			nested = append(nested, n)
		}
	}
	walk(msgs, false)
	return
}

func isWrkMsg(m sdk.Msg) bool {
	switch m.(type) {
	case *wrkchaintypes.MsgRegisterWrkChain, *wrkchaintypes.MsgRecordWrkChainBlock, *wrkchaintypes.MsgPurchaseWrkChainStateStorage:
		return true
	}
	return false
}
func isBeaconMsg(m sdk.Msg) bool {
	switch m.(type) {
	case *beacontypes.MsgRegisterBeacon, *beacontypes.MsgRecordBeaconTimestamp, *beacontypes.MsgPurchaseBeaconStateStorage:
		return true
	}
	return false
}

func msgName(m sdk.Msg) string {
	s := sdk.MsgTypeURL(m)
	if i := strings.LastIndexByte(s, '.'); i >= 0 {
		s = s[i+1:]
	}
	return strings.TrimPrefix(s, "Msg")
}

func descMsgs(msgs []sdk.Msg) string {
	var parts []string
	for _, m := range msgs {
		if ex, ok := m.(*authz.MsgExec); ok {
			inner, _ := ex.GetMessages()
			parts = append(parts, "Exec["+descMsgs(inner)+"]")
			continue
		}
		if gp, ok := m.(*group.MsgSubmitProposal); ok {
			inner, _ := gp.GetMsgs()
			parts = append(parts, "GroupProposal["+descMsgs(inner)+"]")
			continue
		}
		parts = append(parts, shortMsg(m))
	}
	return strings.Join(parts, "+")
}

func shortMsg(m sdk.Msg) string {
	switch x := m.(type) {
	case *wrkchaintypes.MsgRegisterWrkChain:
		return fmt.Sprintf("WrkReg(%q)", trunc20(x.Moniker))
	case *wrkchaintypes.MsgRecordWrkChainBlock:
		return fmt.Sprintf("WrkRec(id=%d,h=%d)", x.WrkchainId, x.Height)
	case *wrkchaintypes.MsgPurchaseWrkChainStateStorage:
		return fmt.Sprintf("WrkBuy(id=%d,n=%d)", x.WrkchainId, x.Number)
	case *beacontypes.MsgRegisterBeacon:
		return fmt.Sprintf("BcnReg(%q)", trunc20(x.Moniker))
	case *beacontypes.MsgRecordBeaconTimestamp:
		return fmt.Sprintf("BcnRec(id=%d,t=%d)", x.BeaconId, x.SubmitTime)
	case *beacontypes.MsgPurchaseBeaconStateStorage:
		return fmt.Sprintf("BcnBuy(id=%d,n=%d)", x.BeaconId, x.Number)
	case *enttypes.MsgUndPurchaseOrder:
		return fmt.Sprintf("PoRaise(%s)", x.Amount)
	case *enttypes.MsgProcessUndPurchaseOrder:
		return fmt.Sprintf("PoDecide(id=%d,%s)", x.PurchaseOrderId, strings.TrimPrefix(x.Decision.String(), "STATUS_"))
	case *enttypes.MsgWhitelistAddress:
		return fmt.Sprintf("Whitelist(%s)", strings.TrimPrefix(x.Action.String(), "WHITELIST_ACTION_"))
	case *streamtypes.MsgCreateStream:
		return fmt.Sprintf("StCreate(%s@%d)", x.Deposit, x.FlowRate)
	case *streamtypes.MsgClaimStream:
		return "StClaim"
	case *streamtypes.MsgTopUpDeposit:
		return fmt.Sprintf("StTopUp(%s)", x.Deposit)
	case *streamtypes.MsgUpdateFlowRate:
		return fmt.Sprintf("StRate(%d)", x.FlowRate)
	case *streamtypes.MsgCancelStream:
		return "StCancel"
	}
	return msgName(m)
}

func trunc20(s string) string {
	if len(s) > 20 {
		return s[:20] + "…"
	}
	return s
}

func bigOf(i math.Int) string { return i.String() }
