package props

import (
	"fmt"
	banktypes "github.com/cosmos/cosmos-sdk/x/bank/types"
	"math/big"
	"strings"
	"time"

	"cosmossdk.io/math"
	abci "github.com/cometbft/cometbft/abci/types"
	sdk "github.com/cosmos/cosmos-sdk/types"

	"verifharness/fw"
	"verifharness/lab"

	streamtypes "github.com/unification-com/mainchain/x/stream/types"
)

var c10Rules = map[string]bool{"stream-escrow-moved": true, "stream-escrow-vs-deposits": true, "stream-balance-delta": true, "stream-ledger": true, "registered-invariant-broken": true}
var c11Rules = map[string]bool{"stream-deposit": true, "deposit-zero-time": true, "last-release-time": true, "deposit-cannot-sustain-rate": true, "stream-rate": true,
	"stream-balance-delta": true, "stream-missing": true, "stream-unexpected": true, "op-on-unknown-stream": true, "create-over-existing": true,
	"pure-amount-to-claim": true, "pure-duration": true, "pure-validator-fee": true, "pure-panic": true}
var c12Rules = map[string]bool{"stranded-claim": true, "stranded-cancel": true, "stranded-topup": true, "stream-op-panic": true, "pure-panic": true, "cancel-refund": true, "stranded-surplus-in-escrow": true}

func init() {
	cases := func(q, t int) func(string) int {
		return func(tier string) int {
			if tier == "thorough" {
				return t
			}
			return q
		}
	}
	fw.Register(&fw.Property{ID: "C10", Level: "exploration", Cases: cases(160+streamEnumQuick, 6000+streamEnumThorough), Need: []string{"releases", "stream_boundaries", "stream_cancel", "ok_MsgCreateStream", "ok_MsgClaimStream", "ok_MsgTopUpDeposit", "ok_MsgUpdateFlowRate", "ok_MsgCancelStream"},
		Rule:        "each case: random genesis (validator fee in {0,1e-18,1%,24%,1/3,0.999..,1}) + 40-60 block stream-heavy history (create/claim/top-up/rate/cancel over many pairs and 3 denominations, hostile signers, authz-nested, multi-op, transfers aimed at the escrow, governance fee changes, block gaps from 1 ns to centuries). Per tx: balance deltas of every account, escrow and fee collector vs the exact reference model (fee = floor(released x current rate)); non-stream and failed txs must not move the escrow; at every boundary escrow == sum of remaining deposits per denom and the registered invariants hold; per stream deposited == paid + fees + refunds + remaining. distinct = (op, before/after zero time, released magnitude, fee rate)",
		Assumptions: []string{"<= 8 concurrent streams, <= 9 accounts"},
		Run:         func(c *fw.Ctx) { runStreamHistory(c, "C10", c10Rules) }})
	fw.Register(&fw.Property{ID: "C11", Level: "exploration", Cases: cases(192+streamEnumQuick, 8000+streamEnumThorough), Need: []string{"releases", "pure_cases", "ok_MsgCreateStream", "ok_MsgClaimStream", "ok_MsgTopUpDeposit", "ok_MsgUpdateFlowRate", "ok_MsgCancelStream"},
		Rule:        "(a) pure functions CalculateAmountToClaim / CalculateDuration / CalculateValidatorFee called directly (recover) on boundary grids (products around 2^31, 2^53, 2^63, 2^64; nanosecond grid {0,1ns,0.5s,0.999999999s} x gaps {1s,2^22s,2^24s,2^30s,>292y}) and PRNG inputs (rates 1..2^63-1, deposits 1..2^200) vs math/big; (b) full-chain histories incl. extreme rates/deposits in an 18-decimal denomination, drained streams followed by top-ups and claims, rate changes, sub-second and multi-century block gaps: after every tx the stream record (deposit, rate, last release, advertised zero time) and all balance deltas equal the exact model and deposit >= rate x seconds(last release .. zero time). distinct = (op, before/after zero, magnitude class)",
		Assumptions: []string{"durations are bounded by 2^62 s (time.Time range); header times carry nanoseconds"},
		Run:         func(c *fw.Ctx) { runC11(c) }})
	fw.Register(&fw.Property{ID: "C12", Level: "exploration", Cases: cases(160+streamEnumQuick, 6000+streamEnumThorough), Need: []string{"probes", "pure_cases", "ok_MsgCreateStream", "ok_MsgClaimStream", "ok_MsgTopUpDeposit", "ok_MsgUpdateFlowRate", "ok_MsgCancelStream"},
		Rule:        "liveness restated as bounded progress: in stream histories with deposits up to 2^200 (18-decimal denomination), all fee rates in [0,1] and elapsed times past expiry, at every block boundary every stream with a positive deposit is probed with app.Simulate (non-mutating): claim by the receiver, cancel by the sender and an affordable top-up must each succeed now; the real claim/cancel/top-up transactions of the history must succeed when entitled; no stream DeliverTx may return the panic code; plus the pure functions under recover. distinct = (probe kind, deposit magnitude, fee rate); non-trivial = stream with deposit >= 2^63 probed",
		Assumptions: []string{"'a top-up the sender can afford' = an amount of rate x 60 of the stream's denomination that the sender's balance covers"},
		Run:         func(c *fw.Ctx) { runStreamHistory(c, "C12", c12Rules) }})
}

// enumeration cases appended to the case lists of C10/C11/C12 (see c10enum.go)
const streamEnumQuick, streamEnumThorough = 2*11*11 + 48, 11*11*11*11 + 4000

func streamEnumIndex(c *fw.Ctx, quickBase, thoroughBase int) int {
	base := quickBase
	if c.Thorough() {
		base = thoroughBase
	}
	return c.Case - base
}

var bigRates = []int64{1, 3, 1000, 1 << 31, 1 << 53, 1 << 62, 1<<63 - 1, 77_777, 1_000_000_000_000_000_000}

// streamBigCreate builds a create with extreme rate/deposit in the 18-decimal denomination.
func streamBigCreate(g *Gen) *TxPlan {
	r := g.E.R
	s, rc := g.randAcct(), g.randAcct()
	for i := 0; i < 4 && rc.Addr.Equals(s.Addr); i++ {
		rc = g.randAcct()
	}
	rate := bigRates[r.Intn(len(bigRates))]
	secs := []string{"60", "61", "100", "3600", "1000000", "10000000000", "100000000000", "31536000"}[r.Intn(8)]
	sb, _ := new(big.Int).SetString(secs, 10)
	dep := new(big.Int).Mul(big.NewInt(rate), sb)
	dep.Add(dep, big.NewInt(int64(r.Intn(1000))))
	limit := new(big.Int).Exp(big.NewInt(10), big.NewInt(62), nil)
	if dep.Cmp(limit) > 0 {
		dep = limit
	}
	m := &streamtypes.MsgCreateStream{Receiver: rc.Addr.String(), Sender: s.Addr.String(), Deposit: sdk.NewCoin(lab.DenomBig, math.NewIntFromBigInt(dep)), FlowRate: rate}
	return g.plan(s, nil, m)
}

var streamGaps = []time.Duration{time.Nanosecond, 500 * time.Millisecond, 999_999_999 * time.Nanosecond, time.Second, 2 * time.Second, 7 * time.Second,
	59 * time.Second, 61 * time.Second, 3600 * time.Second, 86400 * time.Second, (1<<22)*time.Second + 999_999_999, (1<<24)*time.Second + 999_999_999*time.Nanosecond,
	(1<<30)*time.Second + 500*time.Millisecond, 9_000_000_000 * time.Second}

func runStreamHistory(c *fw.Ctx, prop string, rules map[string]bool) {
	r := c.Rng
	o := RandOptions(r)
	e := NewEnv(c, o)
	defer e.L.Cleanup()
	g := NewGen(e)
	filter := func(rule string) bool { return rules[rule] }
	sm, mon := NewStreamMonitor(e, filter)
	e.Monitors = append(e.Monitors, mon)
	viol := func(rule, sig, format string, a ...interface{}) {
		if rules[rule] {
			c.Violate(rule, sig, format+" | trace: %s", append(a, strings.Join(e.TraceTail(5), " ; "))...)
		}
	}
	if prop == "C10" {
		inv := &Monitor{Name: "inv", AfterBlock: func(e *Env, o *lab.Obs) {
			for _, b := range e.L.Invariants(e.L.QueryCtx()) {
				viol("registered-invariant-broken", invName(b), "at height %d: %s", o.Height, firstN(b, 300))
			}
		}}
		e.Monitors = append(e.Monitors, inv)
	}
	// C12: entitled single-op stream txs must succeed; no panic code
	entitled := &Monitor{Name: "c12", AfterTx: func(e *Env, tx *TxPlan, pre, post *lab.Obs, resp abci.ResponseDeliverTx) {
		leaves, nested := Flatten(tx.Spec.Msgs)
		isStream := false
		for _, l := range leaves {
			if strings.HasPrefix(sdk.MsgTypeURL(l), "/mainchain.stream") {
				isStream = true
			}
		}
		if !isStream {
			return
		}
		if resp.Code == 111222 {
			viol("stream-op-panic", msgName(leaves[0]), "stream tx %s aborted with the panic code: %s", tx.Desc, firstN(resp.Log, 160))
		}
		if len(leaves) != 1 || nested[0] || tx.Spec.SeqDelta != 0 || resp.Code == 0 || resp.Code == 11 /* out of gas */ {
			return
		}
		find := func(sender, receiver string) *streamtypes.Stream {
			for i := range pre.Streams {
				if skey(pre.Streams[i].Sender, pre.Streams[i].Receiver) == skey(sender, receiver) {
					return &pre.Streams[i].Stream
				}
			}
			return nil
		}
		signer := ownerHex(tx.Spec.Signers[0].Addr.String())
		switch x := leaves[0].(type) {
		case *streamtypes.MsgClaimStream:
			if st := find(x.Sender, x.Receiver); st != nil && st.Deposit.Amount.IsPositive() && ownerHex(x.Receiver) == signer {
				viol("stranded-claim", magOf(st.Deposit.Amount.BigInt()), "claim by the receiver of a stream holding %s failed: code %d %s", st.Deposit, resp.Code, firstN(resp.Log, 160))
			}
		case *streamtypes.MsgCancelStream:
			if st := find(x.Sender, x.Receiver); st != nil && st.Deposit.Amount.IsPositive() && ownerHex(x.Sender) == signer {
				viol("stranded-cancel", magOf(st.Deposit.Amount.BigInt()), "cancel by the sender of a stream holding %s failed: code %d %s", st.Deposit, resp.Code, firstN(resp.Log, 160))
			}
		case *streamtypes.MsgTopUpDeposit:
			if st := find(x.Sender, x.Receiver); st != nil && st.Deposit.Amount.IsPositive() && ownerHex(x.Sender) == signer && x.Deposit.Denom == st.Deposit.Denom &&
				pre.Accts[tx.Spec.Signers[0].Addr.String()].Spendable.AmountOf(x.Deposit.Denom).GTE(x.Deposit.Amount.Add(tx.Spec.Fee.AmountOf(x.Deposit.Denom))) {
				viol("stranded-topup", magOf(st.Deposit.Amount.BigInt()), "affordable top-up of %s by the sender of a stream holding %s failed: code %d %s", x.Deposit, st.Deposit, resp.Code, firstN(resp.Log, 160))
			}
		}
	}}
	if prop == "C12" {
		e.Monitors = append(e.Monitors, entitled)
	}
	qb, tb := 160, 6000
	if prop == "C11" {
		qb, tb = 192, 8000
	}
	if idx := streamEnumIndex(c, qb, tb); idx >= 0 {
		seq := streamEnumSeq(c, idx)
		var ab func()
		if prop == "C12" {
			ab = func() { c12Probes(c, e, g, viol) }
		}
		driveStreamEnum(c, e, g, seq, ab)
		noteHalt(e)
		c.Count("txs", int64(e.NTx))
		c.Nontrivial()
		if idx < 2 {
			c.Sample(map[string]interface{}{"enumeration_sequence": seq, "stream_params": o.Stream.ValidatorFee.String(), "trace_tail": e.TraceTail(30)})
		}
		return
	}
	denoms := []string{lab.Denom, lab.Denom2, lab.DenomBig}
	nb := r.Range(40, 60)
	reimportAt := -1
	if r.Chance(20) {
		reimportAt = r.Range(10, nb-5)
	}
	for b := 0; b < nb && e.Halted == ""; b++ {
		if e.Last == nil {
			e.Last = e.L.Observe(e.L.Ctx())
		}
		if b == reimportAt {
			e.Reimport()
		}
		if r.Chance(3) {
			// x/bank's per-denomination send switch governs bank transfers between accounts; what a
			// stream owes its parties is none of its business - streams in a denomination whose sends
			// are disabled must keep paying out, stay cancellable and stay fully backed
			d := []string{lab.Denom2, lab.DenomBig}[r.Intn(2)]
			en := r.Chance(30)
			e.Gov(fmt.Sprintf("bank send-enabled %s=%v", d, en), &banktypes.MsgSetSendEnabled{Authority: lab.GovAuthority(), SendEnabled: []*banktypes.SendEnabled{{Denom: d, Enabled: en}}})
			c.Count("send_enabled_changes", 1)
			continue
		}
		if r.Chance(5) {
			// (the last three are just outside [0,1]: the chain must not accept them - and whatever rate
			// it does accept, the streams must stay claimable and cancellable under it)
			vf := []string{"0", "0.000000000000000001", "0.01", "0.5", "1", "0.333333333333333333", "0.999999999999999999", "1.005", "1.000000000000000001", "1.009999999999999999"}
			p := streamtypes.Params{ValidatorFee: sdk.MustNewDecFromStr(vf[r.Intn(len(vf))])}
			e.Gov("stream fee="+p.ValidatorFee.String(), &streamtypes.MsgUpdateParams{Authority: lab.GovAuthority(), Params: p})
			c.Count("fee_rate_changes", 1)
			continue
		}
		gi := r.Weighted([]int{3, 5, 5, 25, 15, 10, 8, 8, 6, 4, 2, 3, 2, 1})
		if prop == "C10" && gi >= 11 && r.Chance(50) {
			gi = 3
		}
		e.BeginBlock(streamGaps[gi])
		ntx := r.Range(1, 4)
		for i := 0; i < ntx && e.Halted == ""; i++ {
			obs := e.Last
			var tx *TxPlan
			switch k := r.Weighted([]int{70, 10, 12, 8}); k {
			case 0:
				tx = g.StreamTx(obs, 10, denoms)
			case 1:
				if len(obs.Streams) < 8 {
					tx = streamBigCreate(g)
				} else {
					tx = g.StreamTx(obs, 10, denoms)
				}
			case 2:
				tx = g.BankTx(obs, 50)
			default:
				tx = g.WrkBeaconTx(obs, 5, 100)
			}
			signer := tx.Spec.Signers[0]
			if r.Chance(8) {
				grantee := g.randAcct()
				if !grantee.Addr.Equals(signer.Addr) {
					for _, gp := range g.EnsureGrants(signer, grantee, tx.Spec.Msgs) {
						e.Deliver(gp)
					}
					wrapped := WrapExec(grantee, tx.Spec.Msgs, 1)
					tx = &TxPlan{Spec: lab.TxSpec{Msgs: []sdk.Msg{wrapped}, Signers: []lab.Acct{grantee}, Fee: tx.Spec.Fee, Gas: 900_000},
						Desc: fmt.Sprintf("%s by a%d(for a%d)", descMsgs([]sdk.Msg{wrapped}), g.idx(grantee), g.idx(signer))}
				}
			}
			if r.Chance(3) {
				tx.Spec.SeqDelta = 1
				tx.Desc += " BADSEQ"
			}
			e.Deliver(tx)
		}
		e.EndBlock()
		if prop == "C12" && e.Halted == "" {
			c12Probes(c, e, g, viol)
		}
	}
	noteHalt(e)
	c.Count("txs", int64(e.NTx))
	_ = sm
	if e.NTx > 20 {
		c.Nontrivial()
	}
	if prop == "C12" {
		pureStreamCases(c, 300, viol)
	}
	if c.Case < 2 {
		c.Sample(map[string]interface{}{"stream_params": o.Stream.ValidatorFee.String(), "trace_tail": e.TraceTail(30)})
	}
}

// c12Probes: for every stream with a positive deposit, claim / cancel / affordable top-up are
// simulated on the committed state (app.Simulate never mutates) and must succeed.
func c12Probes(c *fw.Ctx, e *Env, g *Gen, viol func(rule, sig, format string, a ...interface{})) {
	obs := e.Last
	for _, se := range obs.Streams {
		if !se.Stream.Deposit.Amount.IsPositive() {
			continue
		}
		sa, ok1 := g.acctByAddr(se.Sender)
		ra, ok2 := g.acctByAddr(se.Receiver)
		if !ok1 || !ok2 {
			continue
		}
		mag := magOf(se.Stream.Deposit.Amount.BigInt())
		fr := obs.StreamParams.ValidatorFee.String()
		probe := func(kind string, signer lab.Acct, m sdk.Msg) {
			bz, err := e.L.BuildTx(lab.TxSpec{Msgs: []sdk.Msg{m}, Signers: []lab.Acct{signer}, Gas: 2_000_000})
			if err != nil {
				return
			}
			var simErr error
			func() {
				defer func() {
					if rec := recover(); rec != nil {
						simErr = fmt.Errorf("panic: %v", rec)
					}
				}()
				_, _, simErr = e.L.App.Simulate(bz)
			}()
			c.Count("probes", 1)
			c.Distinct(fmt.Sprintf("probe/%s/deposit%s/fee=%s", kind, mag, fr))
			if se.Stream.Deposit.Amount.BigInt().BitLen() > 63 {
				c.Count("probes_deposit_ge_2^63", 1)
			}
			if simErr != nil {
				cls := "error"
				if strings.Contains(simErr.Error(), "panic") || strings.Contains(simErr.Error(), "overflow") || strings.Contains(simErr.Error(), "out of bound") {
					cls = "arithmetic-panic"
				}
				viol("stranded-"+kind, cls+"/"+mag, "stream %s->%s holds %s (rate %d, fee rate %s, zero time %s, now %s): %s attempted now fails: %s",
					se.Sender, se.Receiver, se.Stream.Deposit, se.Stream.FlowRate, fr, se.Stream.DepositZeroTime.UTC().Format(time.RFC3339), e.L.Time.UTC().Format(time.RFC3339), kind, firstN(simErr.Error(), 200))
			}
		}
		probe("claim", ra, &streamtypes.MsgClaimStream{Receiver: se.Receiver, Sender: se.Sender})
		probe("cancel", sa, &streamtypes.MsgCancelStream{Receiver: se.Receiver, Sender: se.Sender})
		amt := math.NewInt(se.Stream.FlowRate).MulRaw(60)
		have := obs.Accts[sa.Addr.String()].Spendable.AmountOf(se.Stream.Deposit.Denom)
		if have.GTE(amt) {
			probe("topup", sa, &streamtypes.MsgTopUpDeposit{Receiver: se.Receiver, Sender: se.Sender, Deposit: sdk.NewCoin(se.Stream.Deposit.Denom, amt)})
		}
		// "a top-up the sender can afford" includes the boundary: everything the sender can spend
		if have.IsPositive() {
			probe("topup", sa, &streamtypes.MsgTopUpDeposit{Receiver: se.Receiver, Sender: se.Sender, Deposit: sdk.NewCoin(se.Stream.Deposit.Denom, have)})
			c.Count("probes_topup_whole_balance", 1)
		}
	}
}

// ---------------------------------------------------------------------------------------------
// pure functions

func safeCall(f func()) (p interface{}) {
	defer func() { p = recover() }()
	f()
	return nil
}

func pureStreamCases(c *fw.Ctx, n int, viol func(rule, sig, format string, a ...interface{})) {
	r := c.Rng
	base := time.Unix(1_700_000_000, 0).UTC()
	nsGrid := []int64{0, 1, 500_000_000, 999_999_999}
	gapGrid := []int64{0, 1, 59, 60, 1 << 22, 1 << 24, 1<<24 + 1, 1 << 30, 1 << 33, 9_223_372_036, 9_223_372_037, 1 << 35}
	rateGrid := []int64{1, 2, 3, 1 << 31, 1<<31 + 1, 1 << 32, 1 << 53, 1<<53 + 1, 1 << 62, 1<<63 - 1}
	for i := 0; i < n; i++ {
		var rate, gap, lastNs, nowNs int64
		var dep *big.Int
		if i < len(nsGrid)*len(gapGrid) && c.Case == 0 {
			gap = gapGrid[i%len(gapGrid)]
			nowNs = nsGrid[i/len(gapGrid)]
			rate = rateGrid[r.Intn(len(rateGrid))]
			dep = new(big.Int).Lsh(big.NewInt(1), 190)
		} else {
			rate = rateGrid[r.Intn(len(rateGrid))]
			if r.Bool() {
				rate = r.Int63()>>uint(r.Intn(62)) + 1
			}
			gap = gapGrid[r.Intn(len(gapGrid))]
			if r.Bool() {
				gap = r.Int63() >> uint(r.Range(20, 62))
			}
			lastNs, nowNs = nsGrid[r.Intn(4)], nsGrid[r.Intn(4)]
			dep = r.BigLog(200)
		}
		last := base.Add(time.Duration(lastNs))
		now := time.Unix(base.Unix()+gap, nowNs).UTC()
		depCoin := sdk.NewCoin(lab.DenomBig, math.NewIntFromBigInt(dep))
		// zero time: before/at/after now
		zeroOff := []int64{-5, 0, 1, gap + 10, 1 << 40}[r.Intn(5)]
		zero := time.Unix(now.Unix()+zeroOff, int64(now.Nanosecond())).UTC()
		c.Count("pure_cases", 1)
		// reference
		var wantAmt *big.Int
		if !now.Before(zero) {
			wantAmt = new(big.Int).Set(dep)
		} else {
			wantAmt = new(big.Int).Mul(big.NewInt(rate), wholeSeconds(tNs(last), tNs(now)))
			if wantAmt.Cmp(dep) > 0 {
				wantAmt.Set(dep)
			}
		}
		prodMag := magOf(new(big.Int).Mul(big.NewInt(rate), wholeSeconds(tNs(last), tNs(now))))
		rel := "before-zero"
		if !now.Before(zero) {
			rel = "at-or-after-zero"
		}
		c.Distinct(fmt.Sprintf("pure/claim/%s/product%s", rel, prodMag))
		var gotAmt, gotRem sdk.Coin
		if p := safeCall(func() { gotAmt, gotRem = streamtypes.CalculateAmountToClaim(now, zero, last, depCoin, rate) }); p != nil {
			viol("pure-panic", "CalculateAmountToClaim", "CalculateAmountToClaim(now=%s, zero=%s, last=%s, deposit=%s, rate=%d) panicked: %v", now, zero, last, depCoin, rate, p)
		} else if gotAmt.Amount.BigInt().Cmp(wantAmt) != 0 || new(big.Int).Add(gotAmt.Amount.BigInt(), gotRem.Amount.BigInt()).Cmp(dep) != 0 {
			gapCls := "gap<2^24s"
			if gap >= 1<<24 {
				gapCls = "gap>=2^24s"
			}
			if gap > 9_223_372_036 {
				gapCls = "gap>292y"
			}
			viol("pure-amount-to-claim", rel+"/product"+prodMag+"/"+gapCls, "CalculateAmountToClaim(gap=%ds+%dns-%dns, deposit=%s, rate=%d, %s) = (%s, remaining %s), exact = %s", gap, nowNs, lastNs, dep, rate, rel, gotAmt.Amount, gotRem.Amount, wantAmt)
		}
		// duration: also deposits that sit on, just below and just above a whole multiple of the rate
		// (floor must not round: k x rate - 1 lasts k-1 seconds), the fee likewise below
		for _, d := range nearMultiples(r, rate) {
			dc := sdk.NewCoin(lab.DenomBig, math.NewIntFromBigInt(d))
			wd := new(big.Int).Quo(d, big.NewInt(rate))
			if wd.BitLen() > 62 {
				continue
			}
			var gd int64
			c.Count("pure_cases", 1)
			if p := safeCall(func() { gd = streamtypes.CalculateDuration(dc, rate) }); p != nil {
				viol("pure-panic", "CalculateDuration", "CalculateDuration(%s, %d) panicked: %v", dc, rate, p)
			} else if big.NewInt(gd).Cmp(wd) != 0 {
				viol("pure-duration", "near-multiple/"+magOf(wd), "CalculateDuration(%s, %d) = %d, exact floor = %s", dc, rate, gd, wd)
			}
		}
		// quotients an int64 cannot carry (2^63 and beyond, on both sides of 2^64): whatever the function
		// answers, it must not be SHORTER than 2^62 seconds - a negative or small duration would put the
		// deposit-zero time at "now" and release everything at once
		if i%16 == 0 {
			for _, q := range []string{"9223372036854775807", "9223372036854775808", "9223372036854775809", "13835058055282163712", "18446744073709551615", "18446744073709551616", "18446744073709551617", "36893488147419103232"} {
				qq, _ := new(big.Int).SetString(q, 10)
				small := []int64{1, 2, 3, 1000}[r.Intn(4)]
				d := new(big.Int).Mul(qq, big.NewInt(small))
				d.Add(d, big.NewInt(int64(r.Intn(int(small)))))
				dc := sdk.NewCoin(lab.DenomBig, math.NewIntFromBigInt(d))
				var gd int64
				c.Count("pure_cases", 1)
				if p := safeCall(func() { gd = streamtypes.CalculateDuration(dc, small) }); p != nil {
					viol("pure-panic", "CalculateDuration", "CalculateDuration(%s, %d) panicked: %v", dc, small, p)
				} else if qq.BitLen() > 63 && gd < 1<<62 || qq.BitLen() <= 63 && big.NewInt(gd).Cmp(qq) != 0 {
					viol("pure-duration", "quotient>=2^63", "CalculateDuration(%s, %d) = %d, exact floor = %s (a result below 2^62 seconds shortens the stream)", dc, small, gd, qq)
				}
			}
		}
		wantDur := new(big.Int).Quo(dep, big.NewInt(rate))
		var gotDur int64
		if wantDur.BitLen() <= 62 {
			c.Distinct("pure/duration/" + magOf(wantDur))
			if p := safeCall(func() { gotDur = streamtypes.CalculateDuration(depCoin, rate) }); p != nil {
				viol("pure-panic", "CalculateDuration", "CalculateDuration(%s, %d) panicked: %v", depCoin, rate, p)
			} else if big.NewInt(gotDur).Cmp(wantDur) != 0 {
				viol("pure-duration", magOf(wantDur), "CalculateDuration(%s, %d) = %d, exact floor = %s", depCoin, rate, gotDur, wantDur)
			}
		}
		// validator fee
		feeStr := []string{"0", "0.000000000000000001", "0.01", "0.24", "0.333333333333333333", "0.999999999999999999", "1"}[r.Intn(7)]
		feeRate := sdk.MustNewDecFromStr(feeStr)
		amt := r.BigLog(200)
		amtCoin := sdk.NewCoin(lab.DenomBig, math.NewIntFromBigInt(amt))
		wantFee := feeOf(amt, feeRate)
		c.Distinct(fmt.Sprintf("pure/fee/%s/fee%s", feeStr, magOf(wantFee)))
		var gotRecv, gotFee sdk.Coin
		if p := safeCall(func() { gotRecv, gotFee = streamtypes.CalculateValidatorFee(feeRate, amtCoin) }); p != nil {
			viol("pure-panic", "CalculateValidatorFee/fee"+magOf(wantFee), "CalculateValidatorFee(%s, %s) panicked: %v", feeRate, amtCoin, firstN(fmt.Sprint(p), 100))
		} else if gotFee.Amount.BigInt().Cmp(wantFee) != 0 || new(big.Int).Add(gotFee.Amount.BigInt(), gotRecv.Amount.BigInt()).Cmp(amt) != 0 {
			viol("pure-validator-fee", "fee"+magOf(wantFee), "CalculateValidatorFee(%s, %s) = (receiver %s, fee %s), exact fee floor = %s", feeRate, amtCoin, gotRecv.Amount, gotFee.Amount, wantFee)
		}
	}
}

// nearMultiples: k x rate + {-4..-1, 0, +1} for a few k (small, mid, large).
func nearMultiples(r *fw.Rand, rate int64) []*big.Int {
	var out []*big.Int
	for _, k := range []int64{1, 60, int64(r.Range(2, 1_000_000)), r.Int63()>>uint(r.Range(1, 40)) + 1} {
		base := new(big.Int).Mul(big.NewInt(k), big.NewInt(rate))
		for _, off := range []int64{-4, -1, 0, 1} {
			d := new(big.Int).Add(base, big.NewInt(off))
			if d.Sign() > 0 {
				out = append(out, d)
			}
		}
	}
	return out
}

func runC11(c *fw.Ctx) {
	viol := func(rule, sig, format string, a ...interface{}) {
		if c11Rules[rule] {
			c.Violate(rule, sig, format, a...)
		}
	}
	n := 1500
	if c.Thorough() {
		n = 3000
	}
	if streamEnumIndex(c, 192, 8000) < 0 {
		pureStreamCases(c, n, viol)
	}
	runStreamHistory(c, "C11", c11Rules)
}
