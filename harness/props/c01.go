package props

import (
	"bytes"
	"encoding/json"
	"fmt"
	"os"
	"os/exec"
	"strconv"
	"strings"
	"sync"
	"sync/atomic"
	"syscall"
	"time"

	dbm "github.com/cometbft/cometbft-db"
	abci "github.com/cometbft/cometbft/abci/types"
	"github.com/cosmos/cosmos-sdk/baseapp"
	"github.com/cosmos/cosmos-sdk/store"
	pruningtypes "github.com/cosmos/cosmos-sdk/store/pruning/types"
	sdk "github.com/cosmos/cosmos-sdk/types"

	"verifharness/fw"
	"verifharness/lab"

	beacontypes "github.com/unification-com/mainchain/x/beacon/types"
	wrkchaintypes "github.com/unification-com/mainchain/x/wrkchain/types"
)

// C01: deterministic, restart-safe replicated state machine.

func init() {
	fw.Register(&fw.Property{
		ID: "C01", Level: "fault_enumeration",
		Rule: "each case: one recorded history (genesis parameter set + 25-40 blocks of really signed txs over every custom message type incl. failing, out-of-gas/panicking, nested, many-purchase and governance txs) is executed by several replicas of the real application from the SAME recorded block bytes: R0 in-process MemDB (recorder, full observation on), R1 in-process goleveldb with different node-local options (pruning, IAVL cache size, fast node off, inter-block cache), R2 a child process with GOMAXPROCS=1 on goleveldb started after the wall-clock second has advanced; then restart points: the node is stopped at an ABCI boundary {after BeginBlock, after the k-th DeliverTx, after EndBlock, after Commit} of a PRNG-chosen block (thorough: every boundary of the block) - and a child process is SIGKILLed before its N-th database write call inside Commit - the database is reopened, height/hash must be the last committed pair, the interrupted block is replayed and every later hash must equal R0's. Per height the app hash and per tx (code, data, gasWanted, gasUsed) are compared (logs/events are not). Race tier: a replica replays the blocks while 4 goroutines issue queries/CheckTx/Simulate. distinct = (restart position class, replica kind); non-trivial = history with >=1 succeeded, >=1 failed and >=1 out-of-gas/panicked custom tx",
		Cases: func(tier string) int {
			if tier == "thorough" {
				return 600
			}
			return 32
		},
		RaceCases: func(tier string) int {
			if tier == "thorough" {
				return 32
			}
			return 4
		},
		Run:         runC01,
		Need:        []string{"replica_blocks_compared", "restart_points", "commit_kill_points"},
		Assumptions: []string{"only MemDB and goleveldb exist in this build (no cgo backends)", "process kill (SIGKILL), not power loss: the OS page cache survives"},
	})
}

type txRes struct {
	Code      uint32 `json:"c"`
	Data      []byte `json:"d"`
	GasWanted int64  `json:"gw"`
	GasUsed   int64  `json:"gu"`
}
type blockRes struct {
	Height int64   `json:"h"`
	Hash   []byte  `json:"hash"`
	Txs    []txRes `json:"txs"`
}

func c01Options(seed int64, idx int, race bool) lab.Options {
	tag := "C01/options"
	if race {
		tag += "/race"
	}
	r := fw.NewRand(fw.Mix(seed, tag, idx))
	o := RandOptions(r)
	o.Ent.MinAccepts = 1
	o.Whitelist = dedupInts(append(o.Whitelist, 1, 2))
	return o
}

// replayBlock executes one recorded block on l, stopping (without error) at stopAt if >= 0:
// positions: 0 = after BeginBlock, k = after the k-th DeliverTx, len+1 = after EndBlock.
func replayBlock(l *lab.Lab, b RecBlock, stopAt int) (res blockRes, stopped bool) {
	l.Height++
	l.Time = time.Unix(0, b.TimeNs).UTC()
	l.InBlock = true
	l.App.BeginBlock(abci.RequestBeginBlock{Header: l.Header()})
	if stopAt == 0 {
		return res, true
	}
	for i, tx := range b.Txs {
		r := l.Deliver(tx)
		res.Txs = append(res.Txs, txRes{r.Code, r.Data, r.GasWanted, r.GasUsed})
		if stopAt == i+1 {
			return res, true
		}
	}
	l.App.EndBlock(abci.RequestEndBlock{Height: l.Height})
	if stopAt == len(b.Txs)+1 {
		return res, true
	}
	l.InBlock = false
	res.Hash = l.App.Commit().Data
	res.Height = l.Height
	return res, false
}

func sameBlock(a, b blockRes) string {
	if !bytes.Equal(a.Hash, b.Hash) {
		return fmt.Sprintf("app hash %X vs %X", a.Hash, b.Hash)
	}
	if len(a.Txs) != len(b.Txs) {
		return fmt.Sprintf("%d vs %d tx results", len(a.Txs), len(b.Txs))
	}
	for i := range a.Txs {
		x, y := a.Txs[i], b.Txs[i]
		if x.Code != y.Code || !bytes.Equal(x.Data, y.Data) || x.GasWanted != y.GasWanted || x.GasUsed != y.GasUsed {
			return fmt.Sprintf("tx %d: (code %d, %d data bytes, gas %d/%d) vs (code %d, %d data bytes, gas %d/%d)", i, x.Code, len(x.Data), x.GasUsed, x.GasWanted, y.Code, len(y.Data), y.GasUsed, y.GasWanted)
		}
	}
	return ""
}

// manyPurchases: one tx buying storage for several registrations, the last one exceeding its
// maximum (rejected by the max-slots ante check after a number of store reads).
func manyPurchases(g *Gen, o *lab.Obs) *TxPlan {
	byOwner := map[string][]sdk.Msg{}
	for _, b := range o.Beacons {
		byOwner[b.Owner] = append(byOwner[b.Owner], &beacontypes.MsgPurchaseBeaconStateStorage{BeaconId: b.BeaconId, Number: 1, Owner: b.Owner})
	}
	for _, w := range o.Wrk {
		byOwner[w.Owner] = append(byOwner[w.Owner], &wrkchaintypes.MsgPurchaseWrkChainStateStorage{WrkchainId: w.WrkchainId, Number: 1, Owner: w.Owner})
	}
	best := ""
	for ow, ms := range byOwner {
		if len(ms) > len(byOwner[best]) || (len(ms) == len(byOwner[best]) && ow < best) {
			best = ow
		}
	}
	ms := byOwner[best]
	if len(ms) < 2 {
		return nil
	}
	a, ok := g.acctByAddr(best)
	if !ok {
		return nil
	}
	// make one of them exceed
	k := g.E.R.Intn(len(ms))
	switch x := ms[k].(type) {
	case *beacontypes.MsgPurchaseBeaconStateStorage:
		x.Number = 1_000_000
	case *wrkchaintypes.MsgPurchaseWrkChainStateStorage:
		x.Number = 1_000_000
	}
	return g.plan(a, g.moduleFee(o, ms, 100), ms...)
}

func runC01(c *fw.Ctx) {
	o := c01Options(c.Seed, c.Case, c.Race)
	// ---------------- R0: recorder
	e := NewEnv(c, o)
	defer e.L.Cleanup()
	e.Record = true
	e.DupSignersPct = 40
	g := NewGen(e)
	var ref []blockRes
	cur := blockRes{}
	okTx, failTx, panicTx := 0, 0, 0
	rec := &Monitor{Name: "rec"}
	rec.AfterBegin = func(e *Env, pre, post *lab.Obs, resp abci.ResponseBeginBlock) { cur = blockRes{Height: e.L.Height} }
	rec.AfterTx = func(e *Env, tx *TxPlan, pre, post *lab.Obs, resp abci.ResponseDeliverTx) {
		cur.Txs = append(cur.Txs, txRes{resp.Code, resp.Data, resp.GasWanted, resp.GasUsed})
		leaves, _ := Flatten(tx.Spec.Msgs)
		if len(leaves) > 0 && strings.HasPrefix(sdk.MsgTypeURL(leaves[0]), "/mainchain.") {
			switch {
			case resp.Code == 0:
				okTx++
			case resp.Code == 11 || resp.Code == 111222:
				panicTx++
			default:
				failTx++
			}
		}
	}
	rec.AfterBlock = func(e *Env, ob *lab.Obs) {
		cur.Hash = append([]byte(nil), e.L.App.LastCommitID().Hash...)
		ref = append(ref, cur)
	}
	e.Monitors = append(e.Monitors, rec)
	w := defaultMix
	w.LowGasPct, w.BadSeqPct, w.NestedPct, w.GovPct = 5, 4, 10, 7
	e.GovRollbackPct = 40 // what a rolled-back execution leaves in process memory is gone after a restart
	nb := c.Rng.Range(25, 40)
	for b := 0; b < nb && e.Halted == ""; {
		step := c.Rng.Range(2, 5)
		RunMixed(e, g, w, step)
		b += step
		if e.Halted == "" && c.Rng.Chance(60) {
			if tx := manyPurchases(g, e.Last); tx != nil {
				e.Block(time.Second, tx)
				b++
			}
		}
	}
	if e.Halted != "" || len(ref) != len(e.Blocks) {
		c.Count("halted_histories", 1)
		return
	}
	blocks := e.Blocks
	if okTx > 0 && failTx > 0 && panicTx > 0 {
		c.Nontrivial()
	}
	c.Count("recorded_blocks", int64(len(blocks)))
	c.Count("recorded_txs", int64(e.NTx))
	baseHeight := ref[0].Height - 1

	if c.Race {
		c01RaceReplica(c, o, blocks, ref)
		return
	}

	// ---------------- R1: in-process goleveldb with different node-local options
	{
		o1 := o
		o1.Home = c.Scratch + "/home1"
		o1.BaseAppOpts = []func(*baseapp.BaseApp){
			baseapp.SetPruning(pruningtypes.NewPruningOptionsFromString([]string{"everything", "nothing", "default"}[c.Rng.Intn(3)])),
			baseapp.SetIAVLCacheSize(c.Rng.Range(0, 3) * 1000),
			baseapp.SetIAVLDisableFastNode(c.Rng.Bool()),
			baseapp.SetInterBlockCache(store.NewCommitKVStoreCacheManager()),
		}
		db, err := dbm.NewGoLevelDB("app", c.Scratch+"/r1")
		if err != nil {
			panic(err)
		}
		l1 := lab.New(db, o1)
		for i, b := range blocks {
			br, _ := replayBlock(l1, b, -1)
			c.Count("replica_blocks_compared", 1)
			if d := sameBlock(ref[i], br); d != "" {
				c.Violate("replica-divergence", "in-process/goleveldb+node-options", "height %d: recorder (MemDB) and replica (goleveldb, other pruning/cache/fast-node options) differ: %s | txs of that block: %s", ref[i].Height, d, c01DescribeBlock(e, i))
				break
			}
		}
		db.Close()
		c.Distinct("replica/in-process-goleveldb-node-options")
	}
	// ---------------- R3: a replica restarted after EVERY commit (a new App on the same database for
	// each block): whatever a node keeps in process memory across blocks - memoised parameters,
	// owners, "queue non-empty" flags, values left behind by rolled-back executions - is gone at every
	// height, so any influence of such memory on results shows at the first block where it matters,
	// wherever the interesting restart point happens to be
	{
		o3 := o
		o3.Home = c.Scratch + "/home3"
		db3 := dbm.NewMemDB()
		l3 := lab.New(db3, o3)
		for i, b := range blocks {
			br, _ := replayBlock(l3, b, -1)
			c.Count("replica_blocks_compared", 1)
			c.Count("every_block_restarts", 1)
			if d := sameBlock(ref[i], br); d != "" {
				c.Violate("restart-divergence", "restarted-after-every-block", "height %d: a node restarted from its database after every block differs from the node that never stopped: %s | txs of that block: %s", ref[i].Height, d, c01DescribeBlock(e, i))
				break
			}
			app3 := lab.NewApp(db3, o3)
			if app3.LastBlockHeight() != br.Height || !bytes.Equal(app3.LastCommitID().Hash, br.Hash) {
				c.Violate("restart-height-or-hash", "restarted-after-every-block", "after height %d the reopened node is at height %d hash %X, expected hash %X", br.Height, app3.LastBlockHeight(), app3.LastCommitID().Hash, br.Hash)
				break
			}
			l3 = lab.Attach(app3, db3, o3, app3.LastBlockHeight(), l3.Time)
		}
		c.Distinct("replica/restarted-after-every-block")
	}
	// ---------------- blocks file for child processes
	bf := c.Scratch + "/blocks.json"
	bz, _ := json.Marshal(blocks)
	os.WriteFile(bf, bz, 0o644)

	// ---------------- R2: child process, GOMAXPROCS=1, later wall-clock second
	{
		for time.Now().Unix() <= c01StartUnix {
			time.Sleep(50 * time.Millisecond)
		}
		out := c.Scratch + "/r2.jsonl"
		_, err := c01RunChild(c, bf, out, c.Scratch+"/r2db", 0, []string{"GOMAXPROCS=1"})
		got := c01ReadResults(out)
		if err != nil || len(got) != len(ref) {
			c.Count("child_incomplete", 1)
			panic(fmt.Sprintf("child replica did not complete: %v (%d of %d blocks)", err, len(got), len(ref)))
		}
		for i := range ref {
			c.Count("replica_blocks_compared", 1)
			if d := sameBlock(ref[i], got[i]); d != "" {
				c.Violate("replica-divergence", "child-process/GOMAXPROCS=1/later-wall-clock", "height %d: recorder and a separate process (goleveldb, GOMAXPROCS=1, started in a later wall-clock second) differ: %s | txs: %s", ref[i].Height, d, c01DescribeBlock(e, i))
				break
			}
		}
		c.Distinct("replica/child-process")
	}
	// ---------------- restart points at ABCI boundaries (in-process, goleveldb)
	{
		nPoints := 3
		if c.Thorough() {
			nPoints = 0 // every boundary of one block
		}
		bi := c.Rng.Intn(len(blocks))
		for tries := 0; tries < 6 && len(blocks[bi].Txs) == 0; tries++ {
			bi = c.Rng.Intn(len(blocks))
		}
		positions := []int{}
		for p := 0; p <= len(blocks[bi].Txs)+2; p++ {
			positions = append(positions, p) // len+2 = after Commit
		}
		if nPoints > 0 && len(positions) > nPoints {
			c.Rng.Fork()
			sel := []int{positions[c.Rng.Intn(len(positions))], positions[c.Rng.Intn(len(positions))], len(blocks[bi].Txs) + 1}
			positions = sel
		}
		for _, pos := range positions {
			dir := fmt.Sprintf("%s/rs-%d", c.Scratch, pos)
			o2 := o
			o2.Home = dir + "-home"
			db, err := dbm.NewGoLevelDB("app", dir)
			if err != nil {
				panic(err)
			}
			l2 := lab.New(db, o2)
			for i := 0; i < bi; i++ {
				replayBlock(l2, blocks[i], -1)
			}
			stopAt := pos
			afterCommit := pos == len(blocks[bi].Txs)+2
			if afterCommit {
				stopAt = -1
			}
			replayBlock(l2, blocks[bi], stopAt)
			// stop: no Commit, close the database
			db.Close()
			cls := "after-commit"
			switch {
			case pos == 0:
				cls = "after-begin-block"
			case pos <= len(blocks[bi].Txs):
				cls = "after-kth-deliver-tx"
			case pos == len(blocks[bi].Txs)+1:
				cls = "after-end-block"
			}
			c.Count("restart_points", 1)
			c.Distinct("restart/" + cls)
			db2, err := dbm.NewGoLevelDB("app", dir)
			if err != nil {
				panic(err)
			}
			var app2 = lab.NewApp(db2, o2)
			wantH := baseHeight + int64(bi)
			var wantHash []byte
			if bi > 0 {
				wantHash = ref[bi-1].Hash
			}
			if afterCommit {
				wantH++
				wantHash = ref[bi].Hash
			}
			if app2.LastBlockHeight() != wantH || (wantHash != nil && !bytes.Equal(app2.LastCommitID().Hash, wantHash)) {
				c.Violate("restart-height-or-hash", cls, "stopped %s of height %d; after reopening the database the node is at height %d hash %X, expected last committed height %d hash %X", cls, ref[bi].Height, app2.LastBlockHeight(), app2.LastCommitID().Hash, wantH, wantHash)
				db2.Close()
				continue
			}
			l3 := lab.Attach(app2, db2, o2, app2.LastBlockHeight(), time.Unix(0, 0))
			from := bi
			if afterCommit {
				from = bi + 1
			}
			for i := from; i < len(blocks); i++ {
				br, _ := replayBlock(l3, blocks[i], -1)
				if d := sameBlock(ref[i], br); d != "" {
					c.Violate("restart-divergence", cls, "stopped %s of height %d and restarted: height %d differs from the node that never stopped: %s", cls, ref[bi].Height, ref[i].Height, d)
					break
				}
			}
			db2.Close()
			os.RemoveAll(dir)
			os.RemoveAll(dir + "-home")
		}
	}
	// ---------------- SIGKILL inside Commit (child with a crash-injecting DB wrapper)
	{
		// count the write calls of a full run first (deterministic), then pick kill points
		out := c.Scratch + "/cnt.jsonl"
		total, err := c01RunChild(c, bf, out, c.Scratch+"/cntdb", 0, []string{"VERIF_COUNT_WRITES=1"})
		if err != nil || total <= 0 {
			panic(fmt.Sprintf("write-count child failed: %v total=%d", err, total))
		}
		kills := 2
		if c.Thorough() {
			kills = 12
		}
		for k := 0; k < kills; k++ {
			n := int64(c.Rng.Range(int(total/3), int(total)))
			dir := fmt.Sprintf("%s/kill-%d", c.Scratch, k)
			out := dir + ".jsonl"
			c01RunChild(c, bf, out, dir, n, nil)
			c.Count("commit_kill_points", 1)
			logged := c01ReadResults(out)
			db2, err := dbm.NewGoLevelDB("app", dir)
			if err != nil {
				c.Violate("restart-db-unopenable", "killed-in-commit", "database cannot be reopened after SIGKILL at write call %d: %v", n, err)
				continue
			}
			o2 := o
			o2.Home = dir + "-home"
			var app2 = lab.NewApp(db2, o2)
			h := app2.LastBlockHeight()
			lastLogged := baseHeight
			if len(logged) > 0 {
				lastLogged = logged[len(logged)-1].Height
			}
			idx := int(h - baseHeight - 1)
			okState := h == baseHeight && idx == -1 || (idx >= 0 && idx < len(ref) && bytes.Equal(app2.LastCommitID().Hash, ref[idx].Hash))
			if h < baseHeight { // killed while the common pre-history (InitChain + first empty block) was being set up
				c.Count("kills_during_setup", 1)
				db2.Close()
				os.RemoveAll(dir)
				os.RemoveAll(dir + "-home")
				continue
			}
			c.Distinct("restart/killed-inside-commit")
			if !okState || (h != lastLogged && h != lastLogged+1) {
				c.Violate("restart-height-or-hash", "killed-in-commit", "SIGKILL before database write call %d: reopened at height %d hash %X; the child had reported commits up to height %d; reference hash at that height %X", n, h, app2.LastCommitID().Hash, lastLogged, refHash(ref, idx))
				db2.Close()
				continue
			}
			if h >= baseHeight {
				l3 := lab.Attach(app2, db2, o2, h, time.Unix(0, 0))
				for i := idx + 1; i < len(blocks); i++ {
					br, _ := replayBlock(l3, blocks[i], -1)
					if d := sameBlock(ref[i], br); d != "" {
						c.Violate("restart-divergence", "killed-in-commit", "SIGKILL before write call %d, restarted at height %d: height %d differs from the node that never stopped: %s", n, h, ref[i].Height, d)
						break
					}
				}
			}
			db2.Close()
			os.RemoveAll(dir)
			os.RemoveAll(dir + "-home")
		}
	}
	if c.Case < 2 {
		c.Sample(map[string]interface{}{"blocks": len(blocks), "txs": e.NTx, "custom_tx_ok/failed/panicked": []int{okTx, failTx, panicTx}, "trace_tail": e.TraceTail(12)})
	}
}

var c01StartUnix = time.Now().Unix()

func refHash(ref []blockRes, idx int) []byte {
	if idx >= 0 && idx < len(ref) {
		return ref[idx].Hash
	}
	return nil
}

func c01DescribeBlock(e *Env, i int) string {
	var out []string
	h := fmt.Sprintf("h=%d ", int(e.L.Height)-len(e.Blocks)+i+1)
	on := false
	for _, t := range e.Trace {
		if strings.HasPrefix(t, "h=") {
			on = strings.HasPrefix(t, h)
			continue
		}
		if on {
			out = append(out, strings.TrimSpace(t))
		}
	}
	s := strings.Join(out, " ; ")
	return firstN(s, 600)
}

func c01ReadResults(path string) []blockRes {
	bz, err := os.ReadFile(path)
	if err != nil {
		return nil
	}
	var out []blockRes
	for _, ln := range strings.Split(string(bz), "\n") {
		if ln == "" {
			continue
		}
		var br blockRes
		if json.Unmarshal([]byte(ln), &br) == nil && br.Hash != nil {
			out = append(out, br)
		}
	}
	return out
}

// c01RunChild starts `vcheck replica`; returns the number of DB write calls it reported.
func c01RunChild(c *fw.Ctx, blocksFile, out, dbdir string, killAt int64, env []string) (int64, error) {
	self, _ := os.Executable()
	race := "0"
	if c.Race {
		race = "1"
	}
	cmd := exec.Command(self, "replica", strconv.FormatInt(c.Seed, 10), strconv.Itoa(c.Case), race, blocksFile, out, dbdir, strconv.FormatInt(killAt, 10))
	cmd.Env = append(os.Environ(), env...)
	var buf bytes.Buffer
	cmd.Stdout = &buf
	cmd.Stderr = &buf
	done := make(chan error, 1)
	if err := cmd.Start(); err != nil {
		return 0, err
	}
	go func() { done <- cmd.Wait() }()
	var err error
	select {
	case err = <-done:
	case <-time.After(10 * time.Minute):
		cmd.Process.Kill()
		err = fmt.Errorf("watchdog")
	}
	var total int64
	for _, ln := range strings.Split(buf.String(), "\n") {
		if strings.HasPrefix(ln, "WRITES ") {
			fmt.Sscan(strings.TrimPrefix(ln, "WRITES "), &total)
		}
	}
	if err != nil && killAt == 0 {
		return total, fmt.Errorf("%v: %s", err, firstN(buf.String(), 300))
	}
	return total, nil
}

// ---------------------------------------------------------------------------------------------
// child side

type crashDB struct {
	dbm.DB
	n      *int64
	killAt int64
}

func (c crashDB) tick() {
	if atomic.AddInt64(c.n, 1) == c.killAt {
		syscall.Kill(os.Getpid(), syscall.SIGKILL)
		time.Sleep(time.Hour)
	}
}
func (c crashDB) Set(k, v []byte) error     { c.tick(); return c.DB.Set(k, v) }
func (c crashDB) SetSync(k, v []byte) error { c.tick(); return c.DB.SetSync(k, v) }
func (c crashDB) Delete(k []byte) error     { c.tick(); return c.DB.Delete(k) }
func (c crashDB) DeleteSync(k []byte) error { c.tick(); return c.DB.DeleteSync(k) }
func (c crashDB) NewBatch() dbm.Batch       { return crashBatch{c.DB.NewBatch(), c} }

type crashBatch struct {
	dbm.Batch
	c crashDB
}

func (b crashBatch) Write() error     { b.c.tick(); return b.Batch.Write() }
func (b crashBatch) WriteSync() error { b.c.tick(); return b.Batch.WriteSync() }

// ReplicaMain: vcheck replica <seed> <case> <race> <blocksfile> <outfile> <dbdir> <killAt>
func ReplicaMain(args []string) int {
	seed, _ := strconv.ParseInt(args[0], 10, 64)
	idx, _ := strconv.Atoi(args[1])
	race := args[2] == "1"
	bz, err := os.ReadFile(args[3])
	if err != nil {
		fmt.Println(err)
		return 3
	}
	var blocks []RecBlock
	if err := json.Unmarshal(bz, &blocks); err != nil {
		fmt.Println(err)
		return 3
	}
	killAt, _ := strconv.ParseInt(args[6], 10, 64)
	base, err := dbm.NewGoLevelDB("app", args[5])
	if err != nil {
		fmt.Println(err)
		return 3
	}
	var n int64
	var db dbm.DB = base
	if killAt > 0 || os.Getenv("VERIF_COUNT_WRITES") != "" {
		db = crashDB{DB: base, n: &n, killAt: killAt}
	}
	o := c01Options(seed, idx, race)
	o.Home = args[5] + "-home"
	f, _ := os.OpenFile(args[4], os.O_CREATE|os.O_WRONLY|os.O_TRUNC, 0o644)
	l := lab.New(db, o)
	for _, b := range blocks {
		br, _ := replayBlock(l, b, -1)
		out, _ := json.Marshal(br)
		f.Write(append(out, '\n'))
		f.Sync()
	}
	f.Close()
	base.Close()
	os.RemoveAll(o.Home)
	fmt.Printf("WRITES %d\n", atomic.LoadInt64(&n))
	return 0
}

// ---------------------------------------------------------------------------------------------
// race tier

func c01RaceReplica(c *fw.Ctx, o lab.Options, blocks []RecBlock, ref []blockRes) {
	o2 := o
	o2.Home = c.Scratch + "/homeR"
	srv := lab.New(dbm.NewMemDB(), o2)
	defer srv.Cleanup()
	qs := c20Queries(srv)
	var stop int32
	var wg sync.WaitGroup
	var nq int64
	// a CheckTx / Simulate payload: any recorded tx
	var sample []byte
	for _, b := range blocks {
		if len(b.Txs) > 0 {
			sample = b.Txs[0]
			break
		}
	}
	for w := 0; w < 4; w++ {
		wg.Add(1)
		go func(w int) {
			defer wg.Done()
			i := w
			for atomic.LoadInt32(&stop) == 0 {
				i++
				switch {
				case w == 3 && sample != nil && i%2 == 0:
					func() {
						defer func() { recover() }()
						srv.App.Simulate(sample)
					}()
				default:
					q := qs[i%len(qs)]
					srv.App.Query(abci.RequestQuery{Path: q.path, Data: q.data})
				}
				atomic.AddInt64(&nq, 1)
			}
		}(w)
	}
	for i, b := range blocks {
		// CheckTx is serialised with block execution by the ABCI client in a real node: issue it between blocks
		if len(b.Txs) > 0 {
			srv.App.CheckTx(abci.RequestCheckTx{Tx: b.Txs[0], Type: abci.CheckTxType_New})
		}
		br, _ := replayBlock(srv, b, -1)
		c.Count("replica_blocks_compared", 1)
		if d := sameBlock(ref[i], br); d != "" {
			c.Violate("replica-divergence", "concurrent-queries", "height %d: replica serving concurrent queries/Simulate/CheckTx differs from the recorder: %s", ref[i].Height, d)
			break
		}
	}
	atomic.StoreInt32(&stop, 1)
	wg.Wait()
	c.Count("concurrent_calls", atomic.LoadInt64(&nq))
	c.Distinct("replica/race-concurrent-serving")
}
