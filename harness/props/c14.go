package props

import (
	"bytes"
	"fmt"
	"math/big"
	"regexp"
	"strings"
	"time"

	"cosmossdk.io/math"
	abci "github.com/cometbft/cometbft/abci/types"
	sdk "github.com/cosmos/cosmos-sdk/types"
	banktypes "github.com/cosmos/cosmos-sdk/x/bank/types"

	"verifharness/fw"
	"verifharness/lab"

	beacontypes "github.com/unification-com/mainchain/x/beacon/types"
	enttypes "github.com/unification-com/mainchain/x/enterprise/types"
	streamtypes "github.com/unification-com/mainchain/x/stream/types"
	wrkchaintypes "github.com/unification-com/mainchain/x/wrkchain/types"
)

// C14: no history can halt the chain; failed transactions change nothing.

func init() {
	fw.Register(&fw.Property{
		ID: "C14", Level: "exploration",
		Rule: "each case: random genesis + 40-60 block hostile mixed history with a recover() around every block phase and a full raw snapshot of ALL 21 KV stores around every transaction: parameter changes of all four modules through governance between every pair of order-lifecycle steps (signers, thresholds, time limit, enterprise DENOMINATION, fees, limits, validator fee), purchasers of every account kind incl. vesting, order amounts 2^63 / 2^128 / 2^255, multi-message txs whose k-th message fails for every k, out-of-gas at random gas limits, bad sequences, nested txs. Rules: no block phase panics; a tx rejected before execution leaves every store byte-identical; a tx whose message fails (error or panic) changes only keys of the ante set {signer/payer account records, payer/granter/fee-collector/enterprise-escrow balances, fee allowance, payer's locked/spent eFUND and totals}. distinct = (failure kind, failing message index k of n, message type); non-trivial = history with a parameter change while an order is queued or a failing k>=2 message",
		Cases: func(tier string) int {
			if tier == "thorough" {
				return 6000
			}
			return 160
		},
		Run:         runC14,
		Need:        []string{"failed_txs_checked", "block_phases"},
		Assumptions: []string{"a halt is observed as a Go panic escaping BaseApp.BeginBlock/EndBlock/Commit (what makes a CometBFT node stop)"},
	})
}

var reNum = regexp.MustCompile(`[0-9]+`)

func haltSig(h string) string {
	s := h
	if i := strings.Index(s, "\n"); i > 0 {
		s = s[:i]
	}
	if i := strings.Index(s, ";"); i > 0 {
		s = s[:i]
	}
	s = reNum.ReplaceAllString(s, "N")
	if len(s) > 90 {
		s = s[:90]
	}
	return s
}

// anteKeyAllowed decides whether a changed key may legitimately be written by the pre-execution
// (ante) stage of a tx with the given parties.
func anteKeyAllowed(d lab.KeyDiff, parties [][]byte) bool {
	has := func(k []byte) bool {
		for _, p := range parties {
			if len(p) > 0 && bytes.Contains(k, p) {
				return true
			}
		}
		return false
	}
	switch d.Store {
	case "acc":
		return has(d.Key)
	case "bank":
		return has(d.Key) // balances / denom-address index entries of the parties
	case "feegrant":
		return has(d.Key)
	case "enterprise":
		if len(d.Key) == 1 && (d.Key[0] == 0x98 || d.Key[0] == 0x99) {
			return true
		}
		if len(d.Key) > 1 && (d.Key[0] == 0x02 || d.Key[0] == 0x06) {
			return has(d.Key)
		}
	}
	return false
}

func runC14(c *fw.Ctx) {
	r := c.Rng
	o := RandOptions(r)
	o.Ent.MinAccepts = 1
	kinds := []string{"delayed", "continuous", "periodic", "permlocked"}
	for i := 2; i < o.NAccts; i++ {
		if r.Chance(40) {
			o.Kinds[i] = kinds[r.Intn(4)]
		}
		if r.Chance(50) {
			o.Whitelist = append(o.Whitelist, i)
		}
	}
	o.Whitelist = dedupInts(o.Whitelist)
	// a node may be configured to assert all registered invariants every n-th block in its end blocker
	// (`--inv-check-period`); an invariant that gives a false verdict on a sound state then halts it
	if r.Chance(50) {
		o.AppOpts = map[string]interface{}{"inv-check-period": uint(r.Range(1, 3))}
		c.Count("histories_with_inv_check_period", 1)
	}
	e := NewEnv(c, o)
	defer e.L.Cleanup()
	e.Snap = true
	g := NewGen(e)
	feeColl := lab.ModAddr("fee_collector").Bytes()
	escrow := lab.ModAddr("enterprise").Bytes()
	queuedParamChange := false
	failK2 := false
	mon := &Monitor{Name: "c14"}
	mon.AfterTx = func(e *Env, tx *TxPlan, pre, post *lab.Obs, resp abci.ResponseDeliverTx) {
		if resp.Code == 0 {
			return
		}
		c.Count("failed_txs_checked", 1)
		diffs := lab.DiffSnapshots(e.PreSnap, e.PostSnap)
		s0 := tx.Spec.Signers[0].Addr.String()
		anteFailed := post.Accts[s0].Seq == pre.Accts[s0].Seq
		kind := "msg-error"
		switch {
		case anteFailed:
			kind = "ante-rejected"
		case resp.Code == 111222:
			kind = "msg-panic"
		case resp.Code == 11:
			kind = "out-of-gas"
		}
		k, n := 0, len(tx.Spec.Msgs)
		if i := strings.Index(resp.Log, "message index: "); i >= 0 {
			fmt.Sscan(resp.Log[i+len("message index: "):], &k)
		}
		if k >= 1 && n > 1 && !anteFailed {
			failK2 = true
		}
		c.Distinct(fmt.Sprintf("%s/k=%d/n=%d/%s", kind, k, n, msgName(tx.Spec.Msgs[0])))
		if anteFailed {
			for _, d := range diffs {
				c.Violate("rejected-tx-changed-state", d.Store, "tx %s was rejected before execution (code %d %s) but changed %s | trace: %s", tx.Desc, resp.Code, firstN(resp.Log, 80), d.String(), strings.Join(e.TraceTail(3), " ; "))
				break
			}
			return
		}
		parties := [][]byte{feeColl, escrow}
		for _, s := range tx.Spec.Signers {
			parties = append(parties, s.Addr.Bytes())
		}
		if tx.Spec.Granter != nil {
			parties = append(parties, tx.Spec.Granter.Bytes())
		}
		for _, d := range diffs {
			if !anteKeyAllowed(d, parties) {
				c.Violate("failed-tx-left-state-behind", d.Store+"/"+kind, "tx %s failed (code %d: %s) but left a change outside the fee/sequence effects: %s | trace: %s", tx.Desc, resp.Code, firstN(resp.Log, 100), d.String(), strings.Join(e.TraceTail(3), " ; "))
				break
			}
		}
	}
	mon.AfterBlock = func(e *Env, o *lab.Obs) { c.Count("block_phases", 3) }
	e.Monitors = append(e.Monitors, mon)
	// "changes nothing" also covers what a failed transaction leaves behind OUTSIDE the stores
	// (process memory): it shows as later behaviour that contradicts the committed state - a
	// non-owner accepted, an id handed out twice. The registry reference model watches for that.
	_, regMon := NewRegistryMonitor(e, func(rule string) bool {
		return rule == "record-by-non-owner" || rule == "purchase-by-non-owner" || rule == "record-unknown-id" || rule == "purchase-unknown-id" || rule == "next-id" || rule == "owner-changed"
	})
	e.Monitors = append(e.Monitors, regMon)

	w := defaultMix
	w.Ent, w.Reg, w.Stream, w.Bank, w.Staking = 40, 25, 15, 15, 5
	w.GovPct, w.LowGasPct, w.BadSeqPct, w.NestedPct = 0, 6, 6, 12
	nb := r.Range(40, 60)
	if r.Chance(25) {
		c14GhostRegistration(c, e, g)
	}
	if r.Chance(30) {
		// an enterprise parameter change (mostly of the denomination) that executes in the very block
		// in which the chain's first order sits in the accepted queue: decisions are delivered in the
		// block that submits the proposal, the next BeginBlock tallies, that block's EndBlock executes
		// the change, the following BeginBlock mints
		if e.Last == nil {
			e.Block(time.Second)
		}
		obs := e.Last
		if len(obs.Whitelist) > 0 {
			if pa, ok := g.acctByAddr(obs.Whitelist[r.Intn(len(obs.Whitelist))]); ok {
				e.Block(time.Second, g.plan(pa, nil, &enttypes.MsgUndPurchaseOrder{Purchaser: pa.Addr.String(), Amount: sdk.NewInt64Coin(obs.EntParams.Denom, int64(r.Range(1, 1_000_000)))}))
				var along []*TxPlan
				for _, id := range e.Last.RaisedQ {
					for _, s := range g.signers(e.Last) {
						along = append(along, g.plan(s, nil, &enttypes.MsgProcessUndPurchaseOrder{PurchaseOrderId: id, Decision: enttypes.StatusAccepted, Signer: s.Addr.String()}))
					}
				}
				p := e.Last.EntParams
				what := "ent params in the accepted window"
				if r.Chance(70) {
					// (the last one: the current denomination in another letter case - a different, valid one)
					p.Denom = []string{lab.Denom2, "other", strings.ToUpper(p.Denom)}[r.Intn(3)]
					what += " denom=" + p.Denom
				} else {
					p.MinAccepts, p.EntSigners = 1, e.L.Accts[r.Intn(3)].Addr.String()
				}
				if len(e.Last.RaisedQ) > 0 {
					queuedParamChange = true
					c.Count("param_changes_in_accepted_window", 1)
				}
				e.GovAlong(what, along, &enttypes.MsgUpdateParams{Authority: lab.GovAuthority(), Params: p})
				e.Block(time.Second)
				e.Block(time.Second)
			}
		}
	}
	if r.Chance(20) && e.Halted == "" {
		// the denomination is changed when NOTHING is locked any more but eFUND has been spent: a
		// purchaser buys exactly one registration fee, spends all of it, governance moves the
		// denomination, the same purchaser buys again (zero-amount records of the old denomination
		// are still around)
		if e.Last == nil {
			e.Block(time.Second)
		}
		obs := e.Last
		sg := g.signers(obs)
		if len(obs.Whitelist) > 0 && len(sg) > 0 && obs.TotalLocked.Amount.IsZero() && obs.WrkParams.Denom == obs.EntParams.Denom {
			if pa, ok := g.acctByAddr(obs.Whitelist[r.Intn(len(obs.Whitelist))]); ok {
				feeAmt := int64(obs.WrkParams.FeeRegister)
				e.Block(time.Second, g.plan(pa, nil, &enttypes.MsgUndPurchaseOrder{Purchaser: pa.Addr.String(), Amount: sdk.NewInt64Coin(obs.EntParams.Denom, feeAmt)}))
				var decs []*TxPlan
				for _, id := range e.Last.RaisedQ {
					for _, s := range sg {
						decs = append(decs, g.plan(s, nil, &enttypes.MsgProcessUndPurchaseOrder{PurchaseOrderId: id, Decision: enttypes.StatusAccepted, Signer: s.Addr.String()}))
					}
				}
				e.Block(time.Second, decs...)
				e.Block(time.Second)
				e.Block(time.Second)
				wreg := g.WrkRegisterMsg(pa)
				wreg.Owner = pa.Addr.String()
				e.Block(time.Second, g.plan(pa, sdk.NewCoins(sdk.NewInt64Coin(e.Last.WrkParams.Denom, feeAmt)), wreg))
				p := e.Last.EntParams
				p.Denom = []string{lab.Denom2, "other", strings.ToUpper(p.Denom)}[r.Intn(3)]
				e.Gov("ent denom="+p.Denom+" with everything spent", &enttypes.MsgUpdateParams{Authority: lab.GovAuthority(), Params: p})
				if e.Halted == "" {
					e.Block(time.Second, g.plan(pa, nil, &enttypes.MsgUndPurchaseOrder{Purchaser: pa.Addr.String(), Amount: sdk.NewInt64Coin(e.Last.EntParams.Denom, 12345)}))
					decs = nil
					for _, id := range e.Last.RaisedQ {
						for _, s := range g.signers(e.Last) {
							decs = append(decs, g.plan(s, nil, &enttypes.MsgProcessUndPurchaseOrder{PurchaseOrderId: id, Decision: enttypes.StatusAccepted, Signer: s.Addr.String()}))
						}
					}
					e.Block(time.Second, decs...)
					e.Block(time.Second)
					e.Block(time.Second)
				}
				c.Count("denom_changes_with_everything_spent", 1)
			}
		}
	}
	for b := 0; b < nb && e.Halted == ""; {
		step := r.Range(1, 4)
		if b > 0 && r.Chance(3) {
			e.Reimport()
		}
		RunMixed(e, g, w, step)
		b += step
		if e.Halted != "" {
			break
		}
		obs := e.Last
		switch r.Weighted([]int{30, 14, 14, 12, 10, 12, 8}) {
		case 6: // a module account (gov) as purchaser: raised through a governance proposal, then accepted
			sg := g.signers(obs)
			if len(sg) == 0 {
				break
			}
			govAddr := lab.ModAddr("gov")
			e.Block(time.Second, g.plan(sg[0], nil, &enttypes.MsgWhitelistAddress{Address: govAddr.String(), Signer: sg[0].Addr.String(), Action: enttypes.WhitelistActionAdd}))
			before := e.Last.NextPO
			e.Gov("purchase order by the gov account", &enttypes.MsgUndPurchaseOrder{Purchaser: govAddr.String(), Amount: sdk.NewInt64Coin(e.Last.EntParams.Denom, int64(r.Range(1, 99999)))})
			if e.Halted == "" && e.Last.NextPO > before {
				for _, s := range g.signers(e.Last) {
					e.Block(time.Second, g.plan(s, nil, &enttypes.MsgProcessUndPurchaseOrder{PurchaseOrderId: before, Decision: enttypes.StatusAccepted, Signer: s.Addr.String()}))
				}
				e.Block(time.Second)
				e.Block(time.Second)
				c.Count("module_account_purchaser_orders", 1)
			}
		case 0: // enterprise parameter change, possibly incl. the denomination, while orders may be queued
			p := obs.EntParams
			n := r.Range(1, 3)
			var s []string
			for i := 0; i < n; i++ {
				s = append(s, e.L.Accts[i].Addr.String())
			}
			p.EntSigners = strings.Join(s, ",")
			p.MinAccepts = uint64(r.Range(1, n))
			p.DecisionTimeLimit = r.PickU64([]uint64{3, 20, 1000})
			what := "ent params"
			if r.Chance(35) {
				p.Denom = []string{lab.Denom, lab.Denom2, "other", strings.ToUpper(p.Denom)}[r.Intn(4)]
				what = "ent params denom=" + p.Denom
			}
			if len(obs.RaisedQ)+len(obs.AcceptedQ) > 0 {
				queuedParamChange = true
			}
			if r.Chance(30) {
				// all or none also holds for the messages of ONE governance proposal: the update is followed
				// by a message that fails, x/gov discards the branch, nothing of it may remain
				e.Gov(what+" + failing message (rolled back)", &enttypes.MsgUpdateParams{Authority: lab.GovAuthority(), Params: p}, failingGovMsg(e))
				c.Count("rolled_back_param_changes", 1)
			} else {
				e.Gov(what, &enttypes.MsgUpdateParams{Authority: lab.GovAuthority(), Params: p})
			}
			c.Count("ent_param_changes", 1)
		case 1:
			regGovChange(e, r, "")
		case 2:
			vf := []string{"0", "0.5", "1", "0.000000000000000001"}
			sp := &streamtypes.MsgUpdateParams{Authority: lab.GovAuthority(), Params: streamtypes.Params{ValidatorFee: sdk.MustNewDecFromStr(vf[r.Intn(4)])}}
			if r.Chance(30) {
				e.Gov("stream fee + failing message (rolled back)", sp, failingGovMsg(e))
				c.Count("rolled_back_param_changes", 1)
				break
			}
			e.Gov("stream fee", sp)
		case 3: // extreme purchase orders
			if len(obs.Whitelist) > 0 {
				if p, ok := g.acctByAddr(obs.Whitelist[r.Intn(len(obs.Whitelist))]); ok {
					amt := math.NewIntFromBigInt(new(big2).Lsh(bigOne, uint([]int{63, 64, 128, 200, 255}[r.Intn(5)])))
					if r.Bool() {
						amt = amt.SubRaw(1)
					}
					e.Block(time.Second, g.plan(p, nil, &enttypes.MsgUndPurchaseOrder{Purchaser: p.Addr.String(), Amount: sdk.NewCoin(obs.EntParams.Denom, amt)}))
					c.Count("extreme_orders", 1)
				}
			}
		case 4: // multi-message tx whose k-th message fails, every k
			a := g.randAcct()
			to := g.randAcct()
			good := func() sdk.Msg {
				return banktypes.NewMsgSend(a.Addr, to.Addr, sdk.NewCoins(sdk.NewInt64Coin(lab.Denom, 1)))
			}
			bad := func() sdk.Msg {
				switch r.Intn(3) {
				case 0:
					return banktypes.NewMsgSend(a.Addr, to.Addr, sdk.NewCoins(sdk.NewInt64Coin(lab.Denom, 9_000_000_000_000_000_00)))
				case 1:
					return &wrkchaintypes.MsgRecordWrkChainBlock{WrkchainId: 999_999, Height: 1, BlockHash: "x", Owner: a.Addr.String()}
				}
				return &streamtypes.MsgCancelStream{Receiver: to.Addr.String(), Sender: a.Addr.String()}
			}
			n := r.Range(2, 4)
			e.BeginBlock(time.Second)
			for k := 0; k < n; k++ {
				var msgs []sdk.Msg
				for i := 0; i < n; i++ {
					if i == k {
						msgs = append(msgs, bad())
					} else if r.Chance(30) {
						msgs = append(msgs, &streamtypes.MsgCreateStream{Receiver: to.Addr.String(), Sender: a.Addr.String(), Deposit: sdk.NewInt64Coin(lab.Denom2, 6000+int64(e.NTx)), FlowRate: 1})
					} else {
						msgs = append(msgs, good())
					}
				}
				if a.Addr.Equals(to.Addr) {
					break
				}
				e.Deliver(g.plan(a, feeMaybe(r), msgs...))
			}
			e.EndBlock()
		default:
		}
	}
	if e.Halted != "" {
		c.Violate("chain-halt", haltSig(e.Halted), "%s | trace: %s", firstN(e.Halted, 400), strings.Join(e.TraceTail(8), " ; "))
	}
	c.Count("txs", int64(e.NTx))
	if queuedParamChange || failK2 {
		c.Nontrivial()
	}
	if c.Case < 2 {
		c.Sample(map[string]interface{}{"trace_tail": e.TraceTail(30)})
	}
}

// failingGovMsg: a message the gov account cannot execute (a transfer of more than it holds).
func failingGovMsg(e *Env) sdk.Msg {
	return banktypes.NewMsgSend(lab.ModAddr("gov"), e.L.Accts[1].Addr, sdk.NewCoins(sdk.NewCoin(lab.Denom, math.NewIntWithDecimal(1, 40))))
}

type big2 = big.Int

var bigOne = big.NewInt(1)

// c14GhostRegistration: a transaction that registers a WRKChain and a BEACON, uses the identifiers
// it was just handed (record, purchase) and then fails leaves nothing behind - the identifiers go to
// whoever registers next, and the account of the failed transaction is a stranger to them. Played
// out step by step so that the registry reference model (owner rules) sees the follow-up: the
// stranger's record / purchase must be refused, the new owner's accepted.
func c14GhostRegistration(c *fw.Ctx, e *Env, g *Gen) {
	e.Block(time.Second)
	if e.Halted != "" || e.Last == nil || len(e.L.Accts) < 4 {
		return
	}
	r := e.R
	x, y := e.L.Accts[2], e.L.Accts[3]
	obs := e.Last
	nw, nb := obs.NextWrk, obs.NextBeacon
	wfee := func(n uint64) sdk.Coins {
		return sdk.NewCoins(sdk.NewCoin(obs.WrkParams.Denom, math.NewIntFromUint64(n)))
	}
	bfee := func(n uint64) sdk.Coins {
		return sdk.NewCoins(sdk.NewCoin(obs.BeaconParams.Denom, math.NewIntFromUint64(n)))
	}
	failing := banktypes.NewMsgSend(x.Addr, y.Addr, sdk.NewCoins(sdk.NewCoin(lab.Denom, math.NewIntWithDecimal(1, 40))))
	// 1. the ghost: register + use the fresh id + a message that fails (one tx per module: the fee
	//    decorators of this tree price each module's operations separately)
	e.Block(time.Second,
		g.plan(x, wfee(obs.WrkParams.FeeRegister+obs.WrkParams.FeeRecord), g.WrkRegisterMsg(x), &wrkchaintypes.MsgRecordWrkChainBlock{WrkchainId: nw, Height: 5, BlockHash: g.hash(32), Owner: x.Addr.String()}, failing),
		g.plan(x, bfee(obs.BeaconParams.FeeRegister+obs.BeaconParams.FeeRecord), g.BeaconRegisterMsg(x), &beacontypes.MsgRecordBeaconTimestamp{BeaconId: nb, Hash: g.hash(32), SubmitTime: 77, Owner: x.Addr.String()}, failing))
	if e.Halted != "" || e.Last.NextWrk != nw || e.Last.NextBeacon != nb {
		return // (the registry monitor reports an id that was consumed by a failed transaction)
	}
	// 2. the real registrations take the identifiers
	e.Block(time.Second, g.plan(y, wfee(obs.WrkParams.FeeRegister), g.WrkRegisterMsg(y)), g.plan(y, bfee(obs.BeaconParams.FeeRegister), g.BeaconRegisterMsg(y)))
	// 3. the stranger and the owner both try; the order varies
	xs := []*TxPlan{
		g.plan(x, wfee(obs.WrkParams.FeeRecord), &wrkchaintypes.MsgRecordWrkChainBlock{WrkchainId: nw, Height: 7, BlockHash: g.hash(32), Owner: x.Addr.String()}),
		g.plan(x, wfee(obs.WrkParams.FeePurchaseStorage), &wrkchaintypes.MsgPurchaseWrkChainStateStorage{WrkchainId: nw, Number: 1, Owner: x.Addr.String()}),
		g.plan(x, bfee(obs.BeaconParams.FeeRecord), &beacontypes.MsgRecordBeaconTimestamp{BeaconId: nb, Hash: g.hash(32), SubmitTime: 78, Owner: x.Addr.String()}),
		g.plan(x, bfee(obs.BeaconParams.FeePurchaseStorage), &beacontypes.MsgPurchaseBeaconStateStorage{BeaconId: nb, Number: 1, Owner: x.Addr.String()}),
	}
	ys := []*TxPlan{
		g.plan(y, wfee(obs.WrkParams.FeeRecord), &wrkchaintypes.MsgRecordWrkChainBlock{WrkchainId: nw, Height: 9, BlockHash: g.hash(32), Owner: y.Addr.String()}),
		g.plan(y, bfee(obs.BeaconParams.FeeRecord), &beacontypes.MsgRecordBeaconTimestamp{BeaconId: nb, Hash: g.hash(32), SubmitTime: 79, Owner: y.Addr.String()}),
	}
	if r.Bool() {
		e.Block(time.Second, append(xs, ys...)...)
	} else {
		e.Block(time.Second, append(ys, xs...)...)
	}
	c.Count("ghost_registration_probes", 1)
}
