package props

import (
	"encoding/json"
	"fmt"
	"os"

	dbm "github.com/cometbft/cometbft-db"
	abci "github.com/cometbft/cometbft/abci/types"
	"github.com/cosmos/cosmos-sdk/testutil/sims"
	sdk "github.com/cosmos/cosmos-sdk/types"
	banktypes "github.com/cosmos/cosmos-sdk/x/bank/types"

	"verifharness/fw"
	"verifharness/lab"

	enttypes "github.com/unification-com/mainchain/x/enterprise/types"
)

// c02GenesisProbes: chain start is the one other place where balances come into being. For a
// family of genesis documents whose enterprise section disagrees with the bank section (locked
// eFUND recorded without the escrow balance that backs it, an escrow balance without records, ...)
// InitChain may refuse to start (on this tree it panics: "module balance does not match the module
// holdings"), but if it completes, the native supply must be exactly what the bank section
// declares and every balance must add up to it - no coins may be created to make the books fit.
func c02GenesisProbes(c *fw.Ctx, o lab.Options) {
	r := c.Rng
	for k := 0; k < 4; k++ {
		variant := []string{"locked-without-escrow-balance", "escrow-balance-without-records", "total-locked-above-escrow", "consistent"}[k]
		oo := o
		oo.Home, _ = os.MkdirTemp("/var/tmp", "verif-home-")
		oo.SkipInvariantsAtGenesis = r.Bool()
		db := dbm.NewMemDB()
		a := lab.NewApp(db, oo)
		accts := lab.Accounts(oo)
		var gs map[string]json.RawMessage
		if err := json.Unmarshal(lab.GenesisState(a, oo, accts), &gs); err != nil {
			panic(err)
		}
		cdc := a.AppCodec()
		var eg enttypes.GenesisState
		cdc.MustUnmarshalJSON(gs[enttypes.ModuleName], &eg)
		var bg banktypes.GenesisState
		cdc.MustUnmarshalJSON(gs[banktypes.ModuleName], &bg)
		n := int64(r.Range(1, 5_000_000))
		amt := sdk.NewInt64Coin(oo.Ent.Denom, n)
		owner := accts[1+r.Intn(len(accts)-1)].Addr.String()
		escrow := lab.ModAddr("enterprise").String()
		addEscrow := func(x int64) {
			cn := sdk.NewCoins(sdk.NewInt64Coin(oo.Ent.Denom, x))
			bg.Balances = append(bg.Balances, banktypes.Balance{Address: escrow, Coins: cn})
			bg.Supply = bg.Supply.Add(cn...)
		}
		switch variant {
		case "locked-without-escrow-balance":
			eg.TotalLocked = amt
			eg.LockedUnd = append(eg.LockedUnd, enttypes.LockedUnd{Owner: owner, Amount: amt})
		case "escrow-balance-without-records":
			addEscrow(n)
		case "total-locked-above-escrow":
			eg.TotalLocked = amt.AddAmount(sdk.NewInt(7))
			eg.LockedUnd = append(eg.LockedUnd, enttypes.LockedUnd{Owner: owner, Amount: amt})
			addEscrow(n)
		default:
			eg.TotalLocked = amt
			eg.LockedUnd = append(eg.LockedUnd, enttypes.LockedUnd{Owner: owner, Amount: amt})
			addEscrow(n)
		}
		declared := sdk.NewCoins()
		for _, b := range bg.Balances {
			declared = declared.Add(b.Coins...)
		}
		gs[enttypes.ModuleName] = cdc.MustMarshalJSON(&eg)
		gs[banktypes.ModuleName] = cdc.MustMarshalJSON(&bg)
		state, _ := json.Marshal(gs)
		refused := ""
		func() {
			defer func() {
				if p := recover(); p != nil {
					refused = firstN(fmt.Sprint(p), 160)
				}
			}()
			a.InitChain(abci.RequestInitChain{ChainId: lab.ChainID, Time: lab.StartTime, ConsensusParams: sims.DefaultConsensusParams, AppStateBytes: state, InitialHeight: 1})
			a.Commit()
		}()
		c.Count("genesis_probes", 1)
		if refused != "" {
			c.Count("genesis_probes_refused", 1)
			c.Distinct("genesis-probe/" + variant + "/refused")
			os.RemoveAll(oo.Home)
			continue
		}
		c.Distinct("genesis-probe/" + variant + "/started")
		ctx, err := a.CreateQueryContext(0, false)
		if err != nil {
			os.RemoveAll(oo.Home)
			continue
		}
		supply := sdk.NewCoins()
		a.BankKeeper.IterateTotalSupply(ctx, func(cn sdk.Coin) bool { supply = supply.Add(cn); return false })
		sum := sdk.NewCoins()
		a.BankKeeper.IterateAllBalances(ctx, func(_ sdk.AccAddress, cn sdk.Coin) bool { sum = sum.Add(cn); return false })
		if !supply.IsEqual(declared) {
			c.Violate("genesis-created-coins", variant, "InitChain of a genesis (%s: enterprise total locked %s, escrow balance in the bank section %s) started with supply %s although the bank section declares %s and no purchase order completed", variant, eg.TotalLocked, balanceOf(bg, escrow), supply, declared)
		}
		if !sum.IsEqual(supply) {
			c.Violate("balances-vs-supply", "genesis/"+variant, "after InitChain the balances add up to %s, recorded supply %s", sum, supply)
		}
		os.RemoveAll(oo.Home)
	}
}

func balanceOf(bg banktypes.GenesisState, addr string) sdk.Coins {
	for _, b := range bg.Balances {
		if b.Address == addr {
			return b.Coins
		}
	}
	return sdk.NewCoins()
}
