package props

import (
	"fmt"
	"time"

	sdk "github.com/cosmos/cosmos-sdk/types"

	"verifharness/fw"
	"verifharness/lab"

	beacontypes "github.com/unification-com/mainchain/x/beacon/types"
	wrkchaintypes "github.com/unification-com/mainchain/x/wrkchain/types"
)

// Small-scope enumeration for the registry properties (C07/C08/C09): two WRKChains (A with the lower
// id, B) and one BEACON, tiny in-state limits, and sequences over a small alphabet of records
// (next / gap / a height the other chain holds / equal / 2^64-1), purchases (top-level and nested,
// which skip the ante max-slot check) and governance moves of the limits. Every token is one block.
// The registry reference model judges every transaction, so pruning x shared heights x limit 1 x
// lowered maximum x purchases are visited in every order instead of by luck.
var regEnumAlphabet = []string{"recA-next", "recA-gap", "recB-next", "recB-gap", "recB-at-A-lowest", "recA-equal", "recA-max", "buyA", "buyB-nested", "gov-max-down", "gov-max-up", "gov-default", "recBcn", "recBcn-same-hash", "buyBcn-nested", "regC"}

const regEnumQuick = 64

func regEnumThorough() int {
	n := len(regEnumAlphabet)
	return n*n*n + 3000
}

func regEnumSeq(c *fw.Ctx, idx int) []string {
	n := len(regEnumAlphabet)
	if c.Thorough() && idx < n*n*n {
		var seq []string
		for k := 0; k < 3; k++ {
			seq = append(seq, regEnumAlphabet[idx%n])
			idx /= n
		}
		// a fixed tail that forces pruning after whatever the prefix set up
		return append(seq, "recA-next", "recB-next", "recA-gap", "recB-next", "recBcn", "recBcn")
	}
	l := c.Rng.Range(7, 12)
	var seq []string
	for k := 0; k < l; k++ {
		seq = append(seq, regEnumAlphabet[c.Rng.Intn(n)])
	}
	return seq
}

func driveRegEnum(c *fw.Ctx, e *Env, g *Gen, seq []string) {
	ac := e.L.Accts
	oa, ob, oc := ac[1], ac[2], ac[3]
	fee := func(msgs ...sdk.Msg) sdk.Coins { return g.moduleFee(e.Last, msgs, 100) }
	tx := func(signer lab.Acct, msgs ...sdk.Msg) *TxPlan {
		p := g.plan(signer, fee(msgs...), msgs...)
		p.Spec.Gas = 3_000_000
		return p
	}
	nested := func(owner lab.Acct, m sdk.Msg) *TxPlan {
		return &TxPlan{Spec: lab.TxSpec{Msgs: []sdk.Msg{WrapExec(owner, []sdk.Msg{m}, 1)}, Signers: []lab.Acct{owner}, Gas: 3_000_000}, Desc: fmt.Sprintf("Exec[%s] by its owner", descMsgs([]sdk.Msg{m}))}
	}
	if e.Last == nil {
		e.Block(time.Second)
	}
	wa := &wrkchaintypes.MsgRegisterWrkChain{Moniker: "A", Name: "chain a", GenesisHash: "ga", BaseType: "geth", Owner: oa.Addr.String()}
	wb := &wrkchaintypes.MsgRegisterWrkChain{Moniker: "B", Name: "", GenesisHash: "", BaseType: "cosmos", Owner: ob.Addr.String()}
	bc := &beacontypes.MsgRegisterBeacon{Moniker: "BC", Name: "beacon", Owner: oa.Addr.String()}
	e.Block(time.Second, tx(oa, wa), tx(ob, wb), tx(oa, bc))
	idA, idB, idBc := e.L.Opts.WrkStartID, e.L.Opts.WrkStartID+1, e.L.Opts.BeaconStartID
	lastHash := "first"
	for _, tok := range seq {
		if e.Halted != "" {
			return
		}
		obs := e.Last
		a, b := findWrk(obs, idA), findWrk(obs, idB)
		if a == nil || b == nil {
			return
		}
		rec := func(id uint64, owner lab.Acct, h uint64) *TxPlan {
			m := &wrkchaintypes.MsgRecordWrkChainBlock{WrkchainId: id, Height: h, BlockHash: g.hash(32), Owner: owner.Addr.String()}
			if h%2 == 0 {
				m.ParentHash = g.hash(16)
			}
			if h%3 == 0 {
				m.Hash1 = g.hash(8)
			}
			return tx(owner, m)
		}
		switch tok {
		case "recA-next":
			e.Block(time.Second, rec(idA, oa, a.Lastblock+1))
		case "recA-gap":
			e.Block(time.Second, rec(idA, oa, a.Lastblock+3))
		case "recA-equal":
			e.Block(time.Second, rec(idA, oa, a.Lastblock))
		case "recA-max":
			e.Block(time.Second, rec(idA, oa, ^uint64(0)))
		case "recB-next":
			e.Block(time.Second, rec(idB, ob, b.Lastblock+1))
		case "recB-gap":
			e.Block(time.Second, rec(idB, ob, b.Lastblock+4))
		case "recB-at-A-lowest":
			h := a.LowestHeight
			if h <= b.Lastblock {
				h = b.Lastblock + 2
			}
			e.Block(time.Second, rec(idB, ob, h))
		case "buyA":
			e.Block(time.Second, tx(oa, &wrkchaintypes.MsgPurchaseWrkChainStateStorage{WrkchainId: idA, Number: 1, Owner: oa.Addr.String()}))
		case "buyB-nested":
			e.Block(time.Second, nested(ob, &wrkchaintypes.MsgPurchaseWrkChainStateStorage{WrkchainId: idB, Number: uint64(c.Rng.Range(1, 2)), Owner: ob.Addr.String()}))
		case "buyBcn-nested":
			e.Block(time.Second, nested(oa, &beacontypes.MsgPurchaseBeaconStateStorage{BeaconId: idBc, Number: 1, Owner: oa.Addr.String()}))
		case "gov-max-down", "gov-max-up", "gov-default":
			wp, bp := obs.WrkParams, obs.BeaconParams
			switch tok {
			case "gov-max-down":
				if wp.MaxStorageLimit > 1 {
					wp.MaxStorageLimit--
				}
				if bp.MaxStorageLimit > 1 {
					bp.MaxStorageLimit--
				}
			case "gov-max-up":
				wp.MaxStorageLimit += 2
				bp.MaxStorageLimit += 2
			default:
				wp.DefaultStorageLimit = wp.DefaultStorageLimit%wp.MaxStorageLimit + 1
				bp.DefaultStorageLimit = bp.DefaultStorageLimit%bp.MaxStorageLimit + 1
			}
			if wp.DefaultStorageLimit > wp.MaxStorageLimit {
				wp.DefaultStorageLimit = wp.MaxStorageLimit
			}
			if bp.DefaultStorageLimit > bp.MaxStorageLimit {
				bp.DefaultStorageLimit = bp.MaxStorageLimit
			}
			e.Gov(tok, &wrkchaintypes.MsgUpdateParams{Authority: lab.GovAuthority(), Params: wp}, &beacontypes.MsgUpdateParams{Authority: lab.GovAuthority(), Params: bp})
		case "recBcn", "recBcn-same-hash":
			h := g.hash(24)
			if tok == "recBcn-same-hash" {
				h = lastHash
			}
			lastHash = h
			st := uint64(e.L.Time.Unix())
			if c.Rng.Chance(30) {
				st = 0 // must be rejected
			}
			e.Block(time.Second, tx(oa, &beacontypes.MsgRecordBeaconTimestamp{BeaconId: idBc, Hash: h, SubmitTime: st, Owner: oa.Addr.String()}))
		case "regC":
			e.Block(time.Second, tx(oc, &wrkchaintypes.MsgRegisterWrkChain{Moniker: "C" + g.hash(3), Name: "", GenesisHash: "gc", BaseType: "", Owner: oc.Addr.String()}))
		}
		c.Distinct("reg-enum-token/" + tok)
	}
	c.Count("enum_sequences", 1)
	c.Count("enum_tokens", int64(len(seq)))
}
