package props

import (
	"fmt"
	"strings"
	"time"

	"cosmossdk.io/math"
	sdk "github.com/cosmos/cosmos-sdk/types"
	banktypes "github.com/cosmos/cosmos-sdk/x/bank/types"

	"verifharness/fw"
	"verifharness/lab"

	beacontypes "github.com/unification-com/mainchain/x/beacon/types"
	enttypes "github.com/unification-com/mainchain/x/enterprise/types"
	streamtypes "github.com/unification-com/mainchain/x/stream/types"
	wrkchaintypes "github.com/unification-com/mainchain/x/wrkchain/types"
)

// C16: module parameters are always valid and take effect as soon as changed.
// ParamRules are written from the statement: well-formed denomination, positive fees and limits
// with default <= maximum, at least as many well-formed signers as minimum accepts, validator fee
// within [0,1].

func ruleDenom(d string) string {
	if strings.TrimSpace(d) == "" || sdk.ValidateDenom(d) != nil {
		return fmt.Sprintf("malformed denomination %q", d)
	}
	return ""
}

func entParamProblems(p enttypes.Params) []string {
	var out []string
	if s := ruleDenom(p.Denom); s != "" {
		out = append(out, s)
	}
	wellFormed := 0
	for _, s := range strings.Split(p.EntSigners, ",") {
		a, err := sdk.AccAddressFromBech32(s)
		if err != nil || a.Empty() {
			out = append(out, fmt.Sprintf("malformed signer %q", s))
		} else {
			wellFormed++
		}
	}
	if math.NewIntFromUint64(uint64(wellFormed)).LT(math.NewIntFromUint64(p.MinAccepts)) {
		out = append(out, fmt.Sprintf("%d well-formed signers < minimum accepts %d", wellFormed, p.MinAccepts))
	}
	return out
}

func regParamProblems(denom string, fr, fc, fp, def, max uint64) []string {
	var out []string
	if s := ruleDenom(denom); s != "" {
		out = append(out, s)
	}
	if fr == 0 || fc == 0 || fp == 0 {
		out = append(out, "non-positive fee")
	}
	if def == 0 || max == 0 {
		out = append(out, "non-positive storage limit")
	}
	if def > max {
		out = append(out, fmt.Sprintf("default limit %d > maximum %d", def, max))
	}
	return out
}

func streamParamProblems(p streamtypes.Params) []string {
	if p.ValidatorFee.IsNil() {
		return []string{"nil validator fee"}
	}
	if p.ValidatorFee.IsNegative() || p.ValidatorFee.GT(sdk.OneDec()) {
		return []string{"validator fee " + p.ValidatorFee.String() + " outside [0,1]"}
	}
	return nil
}

func init() {
	fw.Register(&fw.Property{
		ID: "C16", Level: "exploration",
		Rule: "each case: mixed history in which, between blocks of ordinary traffic, 10-16 parameter structures are submitted through REAL governance proposals (submit + vote + tally in the gov EndBlocker) for the four modules, each field drawn from boundary values {0, 1, 2^63-1, 2^63, 2^64-1}, denominations {empty, blank, upper-case, too long, valid}, signer lists {valid, blank entries, malformed bech32, wrong prefix, upper-case, fewer than min accepts}, validator fees {-0.1, 0, 1, 1+1e-18, 2}. After every proposal and every block: stored parameters (queried) satisfy the statement's validity rules; a structure with any invalid field leaves the stored parameters of that module byte-identical; a valid one that passes is stored exactly; after WRKChain/BEACON fee changes a CheckTx probe with the old fee must not be admitted+executed; the registry/stream/order monitors (which read live parameters) run throughout. distinct = (module, invalid-field class | valid, outcome)",
		Cases: func(tier string) int {
			if tier == "thorough" {
				return 3000
			}
			return 192
		},
		Run:  runC16,
		Need: []string{"proposals", "invalid_proposals", "valid_applied"},
	})
}

var u64Grid = []uint64{0, 1, 2, 1000, 1<<63 - 1, 1 << 63, ^uint64(0)}

func runC16(c *fw.Ctx) {
	r := c.Rng
	o := RandOptions(r)
	e := NewEnv(c, o)
	defer e.L.Cleanup()
	g := NewGen(e)
	// the models that decide "takes effect": they always read the currently stored parameters
	_, regMon := NewRegistryMonitor(e, func(rule string) bool {
		return rule == "limit-mismatch" || rule == "purchase-above-max" || rule == "storage-query-counters" || rule == "storage-query-max-purchasable" || rule == "retention-set"
	})
	_, entMon := NewEntMonitor(e, func(rule string) bool {
		return rule == "order-status" || rule == "decision-by-non-signer" || rule == "whitelist-by-non-signer"
	})
	_, strMon := NewStreamMonitor(e, func(rule string) bool { return rule == "stream-balance-delta" })
	e.Monitors = append(e.Monitors, regMon, entMon, strMon)
	validity := &Monitor{Name: "param-validity", AfterBlock: func(e *Env, ob *lab.Obs) {
		ctx := sdk.WrapSDKContext(e.L.QueryCtx())
		ep, err1 := e.L.App.EnterpriseKeeper.Params(ctx, &enttypes.QueryParamsRequest{})
		wp, err2 := e.L.App.WrkchainKeeper.Params(ctx, &wrkchaintypes.QueryParamsRequest{})
		bp, err3 := e.L.App.BeaconKeeper.Params(ctx, &beacontypes.QueryParamsRequest{})
		sp, err4 := e.L.App.StreamKeeper.Params(ctx, &streamtypes.QueryParamsRequest{})
		if err1 != nil || err2 != nil || err3 != nil || err4 != nil {
			c.Violate("params-query-error", "query", "%v %v %v %v", err1, err2, err3, err4)
			return
		}
		c.Count("validity_checks", 4)
		for _, p := range entParamProblems(ep.Params) {
			c.Violate("stored-params-invalid", "enterprise/"+classOf(p), "stored enterprise params %+v: %s | trace: %s", ep.Params, p, strings.Join(e.TraceTail(3), " ; "))
		}
		for _, p := range regParamProblems(wp.Params.Denom, wp.Params.FeeRegister, wp.Params.FeeRecord, wp.Params.FeePurchaseStorage, wp.Params.DefaultStorageLimit, wp.Params.MaxStorageLimit) {
			c.Violate("stored-params-invalid", "wrkchain/"+classOf(p), "stored wrkchain params %+v: %s", wp.Params, p)
		}
		for _, p := range regParamProblems(bp.Params.Denom, bp.Params.FeeRegister, bp.Params.FeeRecord, bp.Params.FeePurchaseStorage, bp.Params.DefaultStorageLimit, bp.Params.MaxStorageLimit) {
			c.Violate("stored-params-invalid", "beacon/"+classOf(p), "stored beacon params %+v: %s", bp.Params, p)
		}
		for _, p := range streamParamProblems(sp.Params) {
			c.Violate("stored-params-invalid", "stream/"+classOf(p), "stored stream params %+v: %s", sp.Params, p)
		}
	}}
	e.Monitors = append(e.Monitors, validity)

	w := defaultMix
	w.GovPct, w.VetoPct = 0, 0
	nprop := r.Range(10, 16)
	for i := 0; i < nprop && e.Halted == ""; i++ {
		if i > 0 && r.Chance(5) { // parameters must also survive, and keep taking effect after, an export/import
			e.Reimport()
		}
		RunMixed(e, g, w, r.Range(1, 4))
		if e.Halted != "" {
			break
		}
		c16Proposal(c, e, g, r)
	}
	noteHalt(e)
	c.Count("txs", int64(e.NTx))
	c.Nontrivial()
	if c.Case < 2 {
		c.Sample(map[string]interface{}{"trace_tail": e.TraceTail(30)})
	}
}

func classOf(problem string) string {
	for _, k := range []string{"denomination", "signer", "minimum accepts", "fee", "limit"} {
		if strings.Contains(problem, k) {
			return strings.ReplaceAll(k, " ", "-")
		}
	}
	return "other"
}

func c16Proposal(c *fw.Ctx, e *Env, g *Gen, r *fw.Rand) {
	obs := e.Last
	denoms := []string{lab.Denom, lab.Denom2, "", " ", "NUND", "x", strings.Repeat("d", 129), "ibc/ABCDEF", "a b", "1nund", " nund", "nund ", "\tnund\n", "ufoo\n", " " + lab.Denom2}
	pickU := func(cur uint64) uint64 {
		if r.Chance(45) {
			return cur
		}
		return u64Grid[r.Intn(len(u64Grid))]
	}
	var msg sdk.Msg
	var problems []string
	var module string
	var before, proposed string
	switch r.Intn(4) {
	case 0:
		module = "enterprise"
		p := obs.EntParams
		before = p.String()
		if r.Chance(60) {
			var s []string
			n := r.Range(1, 4)
			for i := 0; i < n; i++ {
				a := e.L.Accts[r.Intn(len(e.L.Accts))]
				switch r.Weighted([]int{70, 8, 8, 6, 8, 8}) {
				case 5: // a well-formed address with a blank before or after it ("a, b" / "a ,b" / tab / newline)
					s = append(s, []string{" " + a.Addr.String(), a.Addr.String() + " ", "\t" + a.Addr.String(), a.Addr.String() + "\n"}[r.Intn(4)])
				case 0:
					s = append(s, a.Addr.String())
				case 1:
					s = append(s, a.Upper())
				case 2:
					s = append(s, "") // blank entry: "a,," / ",a"
				case 3:
					s = append(s, "cosmos1qqqqqqqqqqqqqqqqqqqqqqqqqqqqqqqqnrql8a")
				default:
					s = append(s, a.Addr.String()[:20])
				}
			}
			p.EntSigners = strings.Join(dedupStr(s), ",")
		}
		if r.Chance(50) {
			p.MinAccepts = []uint64{0, 1, 2, 3, 5, 1 << 63, 1<<63 + 1, ^uint64(0), 1<<63 - 1}[r.Intn(9)]
		}
		if r.Chance(30) {
			p.DecisionTimeLimit = pickU(p.DecisionTimeLimit)
			if p.DecisionTimeLimit == 0 {
				p.DecisionTimeLimit = 7 // the statement lists no rule for it; keep it valid
			}
		}
		if r.Chance(25) { // only malformed denominations are tried here; valid denom changes belong to C14
			p.Denom = []string{"", " ", strings.Repeat("d", 129), "a b", "1nund", " nund", "nund ", "nund\n"}[r.Intn(8)]
		}
		problems = entParamProblems(p)
		proposed = p.String()
		msg = &enttypes.MsgUpdateParams{Authority: lab.GovAuthority(), Params: p}
	case 1:
		module = "wrkchain"
		p := obs.WrkParams
		before = p.String()
		p.FeeRegister, p.FeeRecord, p.FeePurchaseStorage = pickU(p.FeeRegister), pickU(p.FeeRecord), pickU(p.FeePurchaseStorage)
		p.DefaultStorageLimit, p.MaxStorageLimit = pickU(p.DefaultStorageLimit), pickU(p.MaxStorageLimit)
		if r.Chance(30) {
			p.Denom = denoms[r.Intn(len(denoms))]
		}
		problems = regParamProblems(p.Denom, p.FeeRegister, p.FeeRecord, p.FeePurchaseStorage, p.DefaultStorageLimit, p.MaxStorageLimit)
		proposed = p.String()
		msg = &wrkchaintypes.MsgUpdateParams{Authority: lab.GovAuthority(), Params: p}
	case 2:
		module = "beacon"
		p := obs.BeaconParams
		before = p.String()
		p.FeeRegister, p.FeeRecord, p.FeePurchaseStorage = pickU(p.FeeRegister), pickU(p.FeeRecord), pickU(p.FeePurchaseStorage)
		p.DefaultStorageLimit, p.MaxStorageLimit = pickU(p.DefaultStorageLimit), pickU(p.MaxStorageLimit)
		if r.Chance(30) {
			p.Denom = denoms[r.Intn(len(denoms))]
		}
		problems = regParamProblems(p.Denom, p.FeeRegister, p.FeeRecord, p.FeePurchaseStorage, p.DefaultStorageLimit, p.MaxStorageLimit)
		proposed = p.String()
		msg = &beacontypes.MsgUpdateParams{Authority: lab.GovAuthority(), Params: p}
	default:
		module = "stream"
		before = obs.StreamParams.String()
		vf := []string{"-0.1", "0", "0.01", "1", "1.000000000000000001", "2", "0.999999999999999999", "-0.000000000000000001"}
		p := streamtypes.Params{ValidatorFee: sdk.MustNewDecFromStr(vf[r.Intn(len(vf))])}
		problems = streamParamProblems(p)
		proposed = p.String()
		msg = &streamtypes.MsgUpdateParams{Authority: lab.GovAuthority(), Params: p}
	}
	oldWrk, oldBeacon := obs.WrkParams, obs.BeaconParams
	// a valid update followed, in the same proposal, by a message that fails: x/gov discards the
	// whole branch, so nothing of the update may remain - neither in the store nor in behaviour
	rolledBack := len(problems) == 0 && r.Chance(22)
	var passed bool
	if rolledBack {
		failing := banktypes.NewMsgSend(lab.ModAddr("gov"), e.L.Accts[1].Addr, sdk.NewCoins(sdk.NewCoin(lab.Denom, math.NewIntWithDecimal(1, 40))))
		passed = e.Gov(module+" params + failing message (rolled back)", msg, failing)
	} else {
		passed = e.Gov(module+" params", msg)
	}
	if e.Halted != "" {
		return
	}
	c.Count("proposals", 1)
	if module == "enterprise" {
		c16SignerEffectProbe(c, e)
		if e.Halted != "" {
			return
		}
	}
	after := ""
	switch module {
	case "enterprise":
		after = e.Last.EntParams.String()
	case "wrkchain":
		after = e.Last.WrkParams.String()
	case "beacon":
		after = e.Last.BeaconParams.String()
	default:
		after = e.Last.StreamParams.String()
	}
	if len(problems) > 0 {
		c.Count("invalid_proposals", 1)
		c.Distinct(fmt.Sprintf("%s/invalid:%s/passed=%v", module, classOf(problems[0]), passed))
		if after != before {
			c.Violate("invalid-update-changed-params", module+"/"+classOf(problems[0]), "%s parameter update with an invalid field (%s) changed the stored parameters from {%s} to {%s}", module, strings.Join(problems, "; "), oneLine(before), oneLine(after))
		}
		return
	}
	if rolledBack {
		c.Count("rolled_back_valid_updates", 1)
		c.Distinct(fmt.Sprintf("%s/valid+failing-message/passed=%v", module, passed))
		if after != before {
			c.Violate("rolled-back-update-changed-params", module, "a %s parameter update whose proposal failed at a later message changed the stored parameters from {%s} to {%s}", module, oneLine(before), oneLine(after))
			return
		}
		// behaviour must follow the stored (unchanged) values: a record priced with the PROPOSED fee
		// must not be admitted
		if module == "wrkchain" {
			var pp wrkchaintypes.Params = msg.(*wrkchaintypes.MsgUpdateParams).Params
			if pp.FeeRecord != oldWrk.FeeRecord && pp.Denom == oldWrk.Denom {
				c16StaleFeeProbe(c, e, g, true, pp.FeeRecord, pp.Denom, "of a rolled-back proposal")
			}
		}
		if module == "beacon" {
			var pp beacontypes.Params = msg.(*beacontypes.MsgUpdateParams).Params
			if pp.FeeRecord != oldBeacon.FeeRecord && pp.Denom == oldBeacon.Denom {
				c16StaleFeeProbe(c, e, g, false, pp.FeeRecord, pp.Denom, "of a rolled-back proposal")
			}
		}
		return
	}
	c.Distinct(fmt.Sprintf("%s/valid/passed=%v", module, passed))
	if passed {
		if after != proposed {
			c.Violate("valid-update-not-stored", module, "%s parameter update passed but stored {%s}, proposed {%s}", module, oneLine(after), oneLine(proposed))
		} else {
			c.Count("valid_applied", 1)
		}
		// "only the new values": a record priced with the OLD fee must no longer be admitted
		if module == "wrkchain" && oldWrk.FeeRecord != e.Last.WrkParams.FeeRecord && oldWrk.Denom == e.Last.WrkParams.Denom {
			c16StaleFeeProbe(c, e, g, true, oldWrk.FeeRecord, oldWrk.Denom, "in force before the update")
		}
		if module == "beacon" && oldBeacon.FeeRecord != e.Last.BeaconParams.FeeRecord && oldBeacon.Denom == e.Last.BeaconParams.Denom {
			c16StaleFeeProbe(c, e, g, false, oldBeacon.FeeRecord, oldBeacon.Denom, "in force before the update")
		}
	}
}

// c16SignerEffectProbe: whatever the proposal did - applied, refused, rolled back - the signer list
// that is STORED now is the one in force: every account tries to whitelist a fresh address (its own
// canonical spelling in the signer field, however the list spells it); exactly the listed accounts
// succeed.
func c16SignerEffectProbe(c *fw.Ctx, e *Env) {
	set, _ := signerSet(e.Last.EntParams)
	stored := e.Last.EntParams.EntSigners
	e.BeginBlock(time.Second)
	for i, a := range e.L.Accts {
		if e.Halted != "" {
			break
		}
		raw := make([]byte, 20)
		for j := range raw {
			raw[j] = byte(e.R.Intn(256))
		}
		fresh := sdk.AccAddress(raw).String()
		resp, ok := e.Deliver(&TxPlan{Spec: lab.TxSpec{Msgs: []sdk.Msg{&enttypes.MsgWhitelistAddress{Address: fresh, Signer: a.Addr.String(), Action: enttypes.WhitelistActionAdd}}, Signers: []lab.Acct{a}, Gas: 1_000_000}, Desc: fmt.Sprintf("signer-effect probe by a%d", i)})
		if !ok {
			continue
		}
		c.Count("signer_effect_probes", 1)
		listed := set[ownerHex(a.Addr.String())]
		switch {
		case listed && resp.Code != 0:
			c.Violate("stored-signers-not-in-effect", "listed-signer-refused", "a%d (%s) is in the stored signer list {%s} but its whitelist message was refused: code %d %s", i, a.Addr, stored, resp.Code, firstN(resp.Log, 160))
		case !listed && resp.Code == 0:
			c.Violate("stored-signers-not-in-effect", "unlisted-account-accepted", "a%d (%s) is not in the stored signer list {%s} but its whitelist message was accepted", i, a.Addr, stored)
		}
		c.Distinct(fmt.Sprintf("signer-effect/listed=%v/ok=%v", listed, resp.Code == 0))
	}
	e.EndBlock()
}

func oneLine(s string) string { return strings.Join(strings.Fields(s), " ") }

func dedupStr(xs []string) []string {
	seen := map[string]bool{}
	var out []string
	for _, x := range xs {
		k := strings.ToLower(x)
		if x != "" && seen[k] {
			continue
		}
		seen[k] = true
		out = append(out, x)
	}
	return out
}

// c16StaleFeeProbe: CheckTx a record that offers the previous record fee; admitted + executed means
// a fee check still used the old value.
func c16StaleFeeProbe(c *fw.Ctx, e *Env, g *Gen, wrk bool, oldFee uint64, denom string, what string) {
	obs := e.Last
	var m sdk.Msg
	var owner lab.Acct
	if wrk {
		if len(obs.Wrk) == 0 {
			return
		}
		w := obs.Wrk[0]
		a, ok := g.acctByAddr(w.Owner)
		if !ok {
			return
		}
		owner = a
		m = &wrkchaintypes.MsgRecordWrkChainBlock{WrkchainId: w.WrkchainId, Height: w.Lastblock + 1, BlockHash: g.hash(64), Owner: a.Addr.String()}
	} else {
		if len(obs.Beacons) == 0 {
			return
		}
		b := obs.Beacons[0]
		a, ok := g.acctByAddr(b.Owner)
		if !ok {
			return
		}
		owner = a
		m = &beacontypes.MsgRecordBeaconTimestamp{BeaconId: b.BeaconId, Hash: g.hash(64), SubmitTime: uint64(e.L.Time.Unix()), Owner: a.Addr.String()}
	}
	spec := lab.TxSpec{Msgs: []sdk.Msg{m}, Signers: []lab.Acct{owner}, Fee: sdk.NewCoins(sdk.NewCoin(denom, math.NewIntFromUint64(oldFee)))}
	bz, err := e.L.BuildTx(spec)
	if err != nil {
		return
	}
	c.Count("stale_fee_probes", 1)
	chk := e.L.Check(bz)
	if chk.Code != 0 {
		// the same transaction may already have been waiting in the mempool (admitted while its fee was
		// the one in force): the re-check every node runs after a commit must evict it as well
		if rc := e.L.Recheck(bz); rc.Code != 0 {
			return
		}
		what += "; admitted by the mempool RE-CHECK"
		c.Count("stale_fee_rechecks_admitted", 1)
	}
	e.BeginBlock(time.Second)
	resp := e.DeliverRaw(&TxPlan{Spec: spec, Desc: "stale-fee probe " + descMsgs(spec.Msgs)}, bz)
	e.EndBlock()
	if resp.Code == 0 {
		mod := "beacon"
		if wrk {
			mod = "wrkchain"
		}
		c.Violate("stale-fee-param-used", mod, "a record offering %d%s - the record fee %s, not the stored one - was admitted by CheckTx and executed", oldFee, denom, what)
	}
}
