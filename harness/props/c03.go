package props

import (
	"fmt"
	"strings"
	"time"

	sdk "github.com/cosmos/cosmos-sdk/types"

	"verifharness/fw"
	"verifharness/lab"

	enttypes "github.com/unification-com/mainchain/x/enterprise/types"
)

// C03: purchase orders mint only after quorum approval, exactly once.
// (i) small-scope enumeration of op sequences on fresh chains, (ii) long random histories.

type c03Scope struct {
	n, min, L int
	limit     uint64 // decision time limit in force (0 = 100 s)
}

func c03Alphabet(n int) []string {
	a := []string{"R"}
	for i := 0; i < n; i++ {
		a = append(a, fmt.Sprintf("A%d", i), fmt.Sprintf("J%d", i))
	}
	a = append(a, "t", "T", "W-", "W+")
	// parameter changes through governance: every valid (signer-set size, min accepts) pair
	for size := 1; size <= n; size++ {
		for min := 1; min <= size; min++ {
			a = append(a, fmt.Sprintf("P%d%d", size, min))
		}
	}
	return a
}

func c03Scopes(tier string) []c03Scope {
	if tier == "thorough" {
		return []c03Scope{{1, 1, 5, 0}, {2, 1, 4, 0}, {2, 2, 4, 0}, {3, 1, 3, 0}, {3, 2, 3, 0}, {3, 3, 3, 0}}
	}
	return []c03Scope{{1, 1, 3, 0}, {2, 1, 3, 0}, {2, 2, 3, 0}, {3, 2, 2, 0}, {3, 3, 2, 0}}
}

const c03Chunk = 48

func pow(b, e int) int {
	r := 1
	for i := 0; i < e; i++ {
		r *= b
	}
	return r
}

func c03EnumCases(tier string) int {
	t := 0
	for _, s := range c03Scopes(tier) {
		t += (pow(len(c03Alphabet(s.n)), s.L) + c03Chunk - 1) / c03Chunk
	}
	return t
}

func c03RandomCases(tier string) int {
	if tier == "thorough" {
		return 3000
	}
	return 64
}

// biased sampler cases: lifecycle-shaped sequences (raise, several decisions, a parameter change,
// ticks) of length 4-8 drawn by the PRNG, c03Chunk/2 sequences per case.
func c03BiasedCases(tier string) int {
	if tier == "thorough" {
		return 2000
	}
	return 64
}

func c03BiasedSequence(r *fw.Rand, n int) []string {
	seq := []string{"R"}
	nd := r.Range(1, n+1)
	for i := 0; i < nd; i++ {
		k := r.Intn(n)
		if r.Chance(55) {
			seq = append(seq, fmt.Sprintf("A%d", k))
		} else {
			seq = append(seq, fmt.Sprintf("J%d", k))
		}
		if r.Chance(15) {
			seq = append(seq, []string{"T", "W-", "t"}[r.Intn(3)])
		}
	}
	if r.Chance(65) {
		size := r.Range(1, n)
		seq = append(seq, fmt.Sprintf("P%d%d", size, r.Range(1, size)))
	}
	tail := r.Range(1, 3)
	for i := 0; i < tail; i++ {
		size := r.Range(1, n)
		seq = append(seq, []string{fmt.Sprintf("P%d%d", size, r.Range(1, size)), "t", "t", "T", "R", fmt.Sprintf("A%d", r.Intn(n)), fmt.Sprintf("J%d", r.Intn(n))}[r.Intn(7)])
	}
	return seq
}

func init() {
	fw.Register(&fw.Property{
		ID: "C03", Level: "exploration",
		Rule: "(i) small-scope enumeration: EVERY sequence of length L over {raise, accept_i, reject_i, 1 s tick, tick past the time limit, whitelist remove/add, governance change to every valid (signer-set size, min-accepts) pair} for signer-set sizes n in {1,2,3} (sampled sequences: up to 4) and thresholds min <= n (quick L=2-3, thorough L=4-6), each on a fresh chain, plus PRNG-drawn lifecycle-shaped sequences of length 4-8 (raise, several decisions, parameter change, ticks), a repeated decision by one signer uses the upper-case bech32 spelling; " +
			"(ii) long random histories with up to 16 concurrent orders, hostile signers/purchasers, upper-case spellings, authz-nested decisions and governance changes of signers/threshold/time limit between lifecycle steps. " +
			"After every tx and block phase every order is compared field by field with the reference model (tally rule of the statement evaluated with that block's time and the stored parameters; accepted orders complete in the next block crediting exactly the amount once; terminal records frozen byte-for-byte; at most one completion event per order). " +
			"distinct = tally situations (n, min, accepts, rejects, stale?, outcome) observed; non-trivial = case in which >=1 order reached a terminal state",
		Cases: func(tier string) int { return c03EnumCases(tier) + c03BiasedCases(tier) + c03RandomCases(tier) },
		Run:   runC03,
		Need:  []string{"orders_completed", "orders_terminal", "sequences", "ok_MsgUndPurchaseOrder", "ok_MsgProcessUndPurchaseOrder", "ok_MsgWhitelistAddress"},
		Assumptions: []string{"signer lists are generated without duplicates (the statement's signer count is ambiguous for duplicates)",
			"'the decision time limit has passed' is elapsed >= limit in whole seconds of block time; signers/purchasers are compared as decoded addresses"},
	})
}

func runC03(c *fw.Ctx) {
	ne := c03EnumCases(c.Tier)
	if c.Case >= ne+c03BiasedCases(c.Tier) {
		runC03Random(c)
		return
	}
	if c.Case >= ne {
		terminal := 0
		var last []string
		for i := 0; i < c03Chunk/2; i++ {
			n := c.Rng.Range(1, 4)
			sc := c03Scope{n: n, min: c.Rng.Range(1, n)}
			// the time limit is a free uint64 parameter: also "never" spelled as a huge number
			sc.limit = c.Rng.PickU64([]uint64{100, 100, 100, 100, 3, ^uint64(0), ^uint64(0) - 1_000_000, 1<<63 + 5, 1<<63 - 1})
			last = c03BiasedSequence(c.Rng, n)
			terminal += c03RunSequence(c, sc, last)
			c.Count("sequences", 1)
		}
		if terminal > 0 {
			c.Nontrivial()
		}
		if c.Case%13 == 0 {
			c.Sample(map[string]interface{}{"biased_sequence": strings.Join(last, " ")})
		}
		return
	}
	// locate scope and chunk
	idx := c.Case
	var sc c03Scope
	for _, s := range c03Scopes(c.Tier) {
		n := (pow(len(c03Alphabet(s.n)), s.L) + c03Chunk - 1) / c03Chunk
		if idx < n {
			sc = s
			break
		}
		idx -= n
	}
	alpha := c03Alphabet(sc.n)
	total := pow(len(alpha), sc.L)
	terminal := 0
	for k := idx * c03Chunk; k < (idx+1)*c03Chunk && k < total; k++ {
		seq := make([]string, sc.L)
		x := k
		for i := 0; i < sc.L; i++ {
			seq[i] = alpha[x%len(alpha)]
			x /= len(alpha)
		}
		terminal += c03RunSequence(c, sc, seq)
		c.Count("sequences", 1)
	}
	if terminal > 0 {
		c.Nontrivial()
	}
	if c.Case%97 == 0 {
		c.Sample(map[string]interface{}{"scope": fmt.Sprintf("n=%d min=%d L=%d", sc.n, sc.min, sc.L), "chunk": idx, "alphabet": alpha})
	}
}

func c03Rules(rule string) bool { return true }

func c03RunSequence(c *fw.Ctx, sc c03Scope, seq []string) int {
	o := lab.DefaultOptions()
	o.NAccts = 6
	var s []string
	for i := 0; i < sc.n; i++ {
		s = append(s, lab.NewAcct(i).Addr.String())
	}
	limit := sc.limit
	if limit == 0 {
		limit = 100
	}
	o.Ent = enttypes.Params{EntSigners: strings.Join(s, ","), Denom: lab.Denom, MinAccepts: uint64(sc.min), DecisionTimeLimit: limit}
	o.Whitelist = []int{4}
	e := NewEnv(c, o)
	defer e.L.Cleanup()
	m, mon := NewEntMonitor(e, c03Rules)
	e.Monitors = append(e.Monitors, mon)
	e.tracef("sequence n=%d min=%d: %s", sc.n, sc.min, strings.Join(seq, " "))
	decided := map[string]bool{}
	purch := e.L.Accts[4]
	for _, op := range seq {
		if e.Halted != "" {
			break
		}
		lastPO := uint64(0)
		if len(e.L.Opts.Whitelist) >= 0 && e.Last != nil && e.Last.NextPO > 1 {
			lastPO = e.Last.NextPO - 1
		} else if e.Last == nil {
			e.Last = e.L.Observe(e.L.Ctx())
		}
		switch {
		case op == "R":
			e.Block(time.Second, &TxPlan{Spec: lab.TxSpec{Msgs: []sdk.Msg{&enttypes.MsgUndPurchaseOrder{Purchaser: purch.Addr.String(), Amount: sdk.NewInt64Coin(lab.Denom, 100)}}, Signers: []lab.Acct{purch}}, Desc: "PoRaise"})
		case op[0] == 'A' || op[0] == 'J':
			i := int(op[1] - '0')
			sg := e.L.Accts[i]
			dec := enttypes.StatusAccepted
			if op[0] == 'J' {
				dec = enttypes.StatusRejected
			}
			id := lastPO
			if id == 0 {
				id = 1 // no order yet: must be rejected
			}
			sp := sg.Addr.String()
			k := fmt.Sprintf("%d/%d", id, i)
			if decided[k] {
				sp = sg.Upper()
			}
			decided[k] = true
			e.Block(time.Second, &TxPlan{Spec: lab.TxSpec{Msgs: []sdk.Msg{&enttypes.MsgProcessUndPurchaseOrder{PurchaseOrderId: id, Decision: dec, Signer: sp}}, Signers: []lab.Acct{sg}}, Desc: fmt.Sprintf("PoDecide(id=%d,%s) by a%d spelled %s", id, short(dec), i, spelling(sp))})
		case op == "t":
			e.Block(time.Second)
		case op == "T":
			e.Block(100 * time.Second)
		case op == "W-" || op == "W+":
			act := enttypes.WhitelistActionRemove
			if op == "W+" {
				act = enttypes.WhitelistActionAdd
			}
			sg := e.L.Accts[0]
			e.Block(time.Second, &TxPlan{Spec: lab.TxSpec{Msgs: []sdk.Msg{&enttypes.MsgWhitelistAddress{Address: purch.Addr.String(), Signer: sg.Addr.String(), Action: act}}, Signers: []lab.Acct{sg}}, Desc: "Whitelist " + op})
		case op[0] == 'P':
			size, min := int(op[1]-'0'), int(op[2]-'0')
			e.Gov(op, &enttypes.MsgUpdateParams{Authority: lab.GovAuthority(), Params: enttypes.Params{EntSigners: strings.Join(s[:size], ","), Denom: lab.Denom, MinAccepts: uint64(min), DecisionTimeLimit: limit}})
		}
	}
	// two trailing blocks so that an accepted order is seen completing
	e.Block(time.Second)
	e.Block(time.Second)
	if e.Halted != "" {
		c.Count("halted_histories", 1)
	}
	term := 0
	for _, po := range m.POs {
		if po.Status == enttypes.StatusCompleted || po.Status == enttypes.StatusRejected {
			term++
		}
	}
	c.Count("orders_terminal", int64(term))
	for k := range m.Tallies {
		c.Distinct(k)
	}
	return term
}

func runC03Random(c *fw.Ctx) {
	r := c.Rng
	o := RandOptions(r)
	o.Whitelist = append(o.Whitelist, 3, 4)
	o.Whitelist = dedupInts(o.Whitelist)
	if r.Chance(12) {
		// a raised order that only a genesis file can hold: its purchaser is an address the bank refuses
		// to pay. Whatever BeginBlock does once the signers accept it (on this tree: halt), the order
		// must never be reported completed without its amount being locked for the purchaser
		mod := []string{"fee_collector", "distribution", "bonded_tokens_pool", "stream"}[r.Intn(4)]
		o.GenesisPOs = append(o.GenesisPOs, enttypes.EnterpriseUndPurchaseOrder{Id: o.PoStartID, Purchaser: lab.ModAddr(mod).String(),
			Amount: sdk.NewInt64Coin(o.Ent.Denom, int64(r.Range(1, 1_000_000))), Status: enttypes.StatusRaised, RaiseTime: uint64(lab.StartTime.Unix())})
		o.ExtraWhitelist = append(o.ExtraWhitelist, lab.ModAddr(mod).String())
		o.PoStartID++
		c.Count("genesis_orders_of_blocked_module_accounts", 1)
	}
	e := NewEnv(c, o)
	defer e.L.Cleanup()
	g := NewGen(e)
	m, mon := NewEntMonitor(e, c03Rules)
	e.Monitors = append(e.Monitors, mon)
	w := MixWeights{Ent: 80, Reg: 5, Stream: 0, Bank: 10, Staking: 5, NestedPct: 10, GranterPct: 2, BadSeqPct: 3, GovPct: 0, EntHostile: 25, ExactFeePct: 100}
	nb := r.Range(40, 70)
	if c.Case%8 == 5 {
		c03Crowd(c, e, g)
	}
	for b := 0; b < nb && e.Halted == ""; b += 5 {
		if b > 0 && r.Chance(6) { // the order book must survive an export/import at any point of its lifecycle
			e.Reimport()
		}
		RunMixed(e, g, w, 5)
		if r.Chance(35) && e.Halted == "" { // change signers / threshold / time limit between lifecycle steps
			p := e.Last.EntParams
			n := r.Range(1, 4)
			off := 0
			if r.Chance(25) {
				off = 1
			}
			var s []string
			for i := 0; i < n; i++ {
				s = append(s, e.L.Accts[i+off].Addr.String())
			}
			p.EntSigners = strings.Join(s, ",")
			p.MinAccepts = uint64(r.Range(1, n))
			p.DecisionTimeLimit = r.PickU64([]uint64{3, 15, 60, 1000, ^uint64(0), 1<<63 + 5})
			e.Gov(fmt.Sprintf("ent signers=%d(off %d) min=%d limit=%d", n, off, p.MinAccepts, p.DecisionTimeLimit), &enttypes.MsgUpdateParams{Authority: lab.GovAuthority(), Params: p})
			c.Count("gov_changes", 1)
		}
	}
	noteHalt(e)
	// what a client is TOLD about the orders: every list walk (status x purchaser filters, key and
	// offset paging) must report each order exactly once, with the status the model holds
	if e.Halted == "" && !e.L.InBlock {
		c20WalkAll(c, e, e.L.QueryCtx())
		c.Count("order_listing_walks", 1)
	}
	term := 0
	for _, po := range m.POs {
		if po.Status == enttypes.StatusCompleted || po.Status == enttypes.StatusRejected {
			term++
		}
	}
	c.Count("orders_terminal", int64(term))
	c.Count("sequences", 1)
	c.Count("txs", int64(e.NTx))
	for k := range m.Tallies {
		c.Distinct(k)
	}
	if term > 0 {
		c.Nontrivial()
	}
	if c.Case%31 == 0 {
		c.Sample(map[string]interface{}{"random_history_trace_tail": e.TraceTail(25)})
	}
}

// c03Crowd: more than a default page (100) of orders waiting for decisions at once. Every one of
// them - the last raised as much as the first - must be tallied in the block its quorum is
// reached, and must go stale at its own deadline (the reference model follows each order).
func c03Crowd(c *fw.Ctx, e *Env, g *Gen) {
	e.Block(time.Second)
	if e.Halted != "" || e.Last == nil {
		return
	}
	var buyers []lab.Acct
	for _, a := range e.L.Accts {
		for _, w := range e.Last.Whitelist {
			if ownerHex(w) == ownerHex(a.Addr.String()) {
				buyers = append(buyers, a)
			}
		}
	}
	signers := g.signers(e.Last)
	if len(buyers) == 0 || len(signers) == 0 {
		return
	}
	denom := e.Last.EntParams.Denom
	first := e.Last.NextPO
	n := 104 + e.R.Intn(6)
	for k := 0; k < n && e.Halted == ""; {
		var txs []*TxPlan
		for t := 0; t < 4 && k < n; t++ {
			b := buyers[k%len(buyers)]
			var msgs []sdk.Msg
			for j := 0; j < 3 && k < n; j++ {
				msgs = append(msgs, &enttypes.MsgUndPurchaseOrder{Purchaser: b.Addr.String(), Amount: sdk.NewInt64Coin(denom, int64(1000+k))})
				k++
			}
			txs = append(txs, &TxPlan{Spec: lab.TxSpec{Msgs: msgs, Signers: []lab.Acct{b}, Gas: 2_000_000}, Desc: fmt.Sprintf("crowd: %d orders by a%d", len(msgs), g.idx(b))})
		}
		e.Block(time.Second, txs...)
	}
	if e.Halted != "" || e.Last.NextPO < first+uint64(n) {
		return
	}
	// every signer accepts the three orders raised last and the very first one
	var dec []*TxPlan
	for _, s := range signers {
		var msgs []sdk.Msg
		for _, id := range []uint64{first + uint64(n) - 1, first + uint64(n) - 2, first + uint64(n) - 3, first} {
			msgs = append(msgs, &enttypes.MsgProcessUndPurchaseOrder{PurchaseOrderId: id, Decision: enttypes.StatusAccepted, Signer: s.Addr.String()})
		}
		dec = append(dec, &TxPlan{Spec: lab.TxSpec{Msgs: msgs, Signers: []lab.Acct{s}, Gas: 2_000_000}, Desc: fmt.Sprintf("crowd: a%d accepts the last three and the first", g.idx(s))})
	}
	e.Block(time.Second, dec...)
	e.Block(time.Second)
	e.Block(time.Second)
	c.Count("crowd_histories", 1)
	c.Count("crowd_orders", int64(n))
}
