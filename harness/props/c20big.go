package props

import (
	"fmt"
	"time"

	sdk "github.com/cosmos/cosmos-sdk/types"

	"verifharness/fw"
	"verifharness/lab"

	enttypes "github.com/unification-com/mainchain/x/enterprise/types"
	streamtypes "github.com/unification-com/mainchain/x/stream/types"
)

// c20Enlarge pushes every listable collection past the SDK's default page size (100): > 100
// BEACONs, WRKChains, purchase orders, whitelist entries and streams (multi-message transactions),
// so that walks with limits 0 (default), 100, 101 and 150 need a continuation page.
func c20Enlarge(c *fw.Ctx, e *Env, g *Gen) {
	ac := e.L.Accts
	big := func(signer lab.Acct, fee sdk.Coins, msgs ...sdk.Msg) *TxPlan {
		p := g.plan(signer, fee, msgs...)
		p.Spec.Gas = 30_000_000
		return p
	}
	// BEACONs and WRKChains: 13 x 10 and 11 x 10 registrations by rotating owners
	for k := 0; k < 13 && e.Halted == ""; k++ {
		ow := ac[1+k%(len(ac)-1)]
		var bm, wm []sdk.Msg
		for i := 0; i < 10; i++ {
			b := g.BeaconRegisterMsg(ow)
			b.Owner = ow.Addr.String()
			if i%4 == 0 {
				b.Moniker = "shared"
			}
			bm = append(bm, b)
			if k < 11 {
				w := g.WrkRegisterMsg(ow)
				w.Owner = ow.Addr.String()
				if i%3 == 0 {
					w.Moniker = "shared"
				}
				wm = append(wm, w)
			}
		}
		txs := []*TxPlan{big(ow, g.moduleFee(e.Last, bm, 100), bm...)}
		if len(wm) > 0 {
			txs = append(txs, big(ow, g.moduleFee(e.Last, wm, 100), wm...))
		}
		e.Block(time.Second, txs...)
	}
	// whitelist: 105 further addresses (held only as addresses), by a current signer
	if sg := g.signers(e.Last); len(sg) > 0 {
		for k := 0; k < 11 && e.Halted == ""; k++ {
			var ms []sdk.Msg
			for i := 0; i < 10 && k*10+i < 105; i++ {
				a := lab.NewAcct(200 + k*10 + i)
				e.ExtraAddrs = append(e.ExtraAddrs, a.Addr)
				ms = append(ms, &enttypes.MsgWhitelistAddress{Address: a.Addr.String(), Signer: sg[0].Addr.String(), Action: enttypes.WhitelistActionAdd})
			}
			e.Block(time.Second, big(sg[0], nil, ms...))
		}
	}
	// purchase orders: whitelisted lab accounts raise 110 more
	var wl []lab.Acct
	for _, w := range e.Last.Whitelist {
		if a, ok := g.acctByAddr(w); ok {
			wl = append(wl, a)
		}
	}
	for k := 0; k < 11 && len(wl) > 0 && e.Halted == ""; k++ {
		p := wl[k%len(wl)]
		var ms []sdk.Msg
		for i := 0; i < 10; i++ {
			ms = append(ms, &enttypes.MsgUndPurchaseOrder{Purchaser: p.Addr.String(), Amount: sdk.NewInt64Coin(e.Last.EntParams.Denom, int64(1000+k*10+i))})
		}
		e.Block(time.Second, big(p, nil, ms...))
	}
	// streams: 8 senders x 14 receivers that exist only as addresses
	for k := 0; k < 8 && k < len(ac) && e.Halted == ""; k++ {
		var ms []sdk.Msg
		for i := 0; i < 14; i++ {
			rc := lab.NewAcct(400 + i)
			if k == 0 {
				e.ExtraAddrs = append(e.ExtraAddrs, rc.Addr)
			}
			ms = append(ms, &streamtypes.MsgCreateStream{Receiver: rc.Addr.String(), Sender: ac[k].Addr.String(), Deposit: sdk.NewInt64Coin(lab.Denom2, int64(600+i)), FlowRate: 10})
		}
		e.Block(time.Second, big(ac[k], nil, ms...))
	}
	c.Count("enlarged_states", 1)
	c.Distinct(fmt.Sprintf("enlarged-state/beacons>100=%v/wrkchains>100=%v/orders>100=%v/whitelist>100=%v/streams>100=%v",
		len(e.Last.Beacons) > 100, len(e.Last.Wrk) > 100, len(e.Last.POs) > 100, len(e.Last.Whitelist) > 100, len(e.Last.Streams) > 100))
}
