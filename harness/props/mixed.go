package props

import (
	"fmt"
	banktypes "github.com/cosmos/cosmos-sdk/x/bank/types"
	"strings"
	"time"

	abci "github.com/cometbft/cometbft/abci/types"
	sdk "github.com/cosmos/cosmos-sdk/types"
	govv1 "github.com/cosmos/cosmos-sdk/x/gov/types/v1"

	"verifharness/fw"
	"verifharness/lab"

	enttypes "github.com/unification-com/mainchain/x/enterprise/types"
	streamtypes "github.com/unification-com/mainchain/x/stream/types"
)

// MixWeights selects the transaction mix of a mixed history.
type MixWeights struct {
	Ent, Reg, Stream, Bank, Staking int
	NestedPct                       int // share of txs wrapped into authz MsgExec
	GranterPct                      int // share of txs paid by a fee granter
	BadSeqPct                       int // share of txs signed with a wrong sequence (ante failure)
	GovPct                          int // per-block chance of a governance parameter change
	VetoPct                         int // per-block chance of a vetoed proposal (deposit burn)
	EntHostile                      int
	ExactFeePct                     int
	LowGasPct                       int
	CoSignPct                       int // share of txs co-signed by a second account (extra MsgSend), half of them naming it as fee payer
	ReimportPct                     int // per-block chance that the history continues on a fresh chain initialised from an export (Env.Reimport)
}

var defaultMix = MixWeights{Ent: 30, Reg: 30, Stream: 15, Bank: 15, Staking: 5, NestedPct: 10, GranterPct: 6, BadSeqPct: 5, GovPct: 5, VetoPct: 2, EntHostile: 15, ExactFeePct: 70, LowGasPct: 2, CoSignPct: 5}

// mixedGovChange pushes a random valid parameter change of one of the four modules through
// governance (the enterprise denomination is never changed here; C14 owns that).
func mixedGovChange(e *Env, r *fw.Rand) {
	obs := e.Last
	switch r.Intn(4) {
	case 0:
		p := obs.EntParams
		n := r.Range(1, 3)
		var s []string
		for i := 0; i < n; i++ {
			s = append(s, e.L.Accts[i].Addr.String())
		}
		if r.Chance(30) { // a different signer set
			s = nil
			for i := 0; i < n; i++ {
				s = append(s, e.L.Accts[(i+2)%len(e.L.Accts)].Addr.String())
			}
		}
		dup := ""
		if e.DupSignersPct > 0 && r.Chance(e.DupSignersPct) {
			// a list that names accounts more than once (valid: every entry is a well-formed address):
			// four distinct accounts, two of them repeated, one of the repeats in upper case
			s = nil
			for i := 0; i < 4; i++ {
				s = append(s, e.L.Accts[(i+r.Intn(2))%len(e.L.Accts)].Addr.String())
			}
			s = append(dedupStr(s), s[0], e.L.Accts[1].Upper(), s[len(s)-1])
			n = 2
			dup = " (entries repeated)"
			e.C.Count("gov_signer_lists_with_repeats", 1)
		}
		p.EntSigners = strings.Join(s, ",")
		p.MinAccepts = uint64(r.Range(1, n))
		p.DecisionTimeLimit = r.PickU64([]uint64{3, 10, 60, 1000})
		e.Gov(fmt.Sprintf("ent signers=%d%s min=%d limit=%d", n, dup, p.MinAccepts, p.DecisionTimeLimit), &enttypes.MsgUpdateParams{Authority: lab.GovAuthority(), Params: p})
	case 1, 2:
		regGovChange(e, r, "")
	default:
		// (the last three are not in [0,1]: the proposal must not get through)
		vf := []string{"0", "0.01", "0.5", "1", "0.333333333333333333", "0.000000000000000001", "1.005", "1.000000000000000001", "1.009999999999999999"}
		p := streamtypes.Params{ValidatorFee: sdk.MustNewDecFromStr(vf[r.Intn(len(vf))])}
		e.Gov("stream fee="+p.ValidatorFee.String(), &streamtypes.MsgUpdateParams{Authority: lab.GovAuthority(), Params: p})
	}
	e.C.Count("gov_changes", 1)
}

// govVeto submits a proposal and vetoes it: its deposit is burned by the gov module (a protocol burn).
func govVeto(e *Env) {
	a0 := e.L.Accts[0]
	e.BeginBlock(time.Second)
	sp, err := newSubmitProposal([]sdk.Msg{&streamtypes.MsgUpdateParams{Authority: lab.GovAuthority(), Params: e.Last.StreamParams}}, a0.Addr.String())
	if err != nil {
		e.EndBlock()
		return
	}
	r, ok := e.Deliver(&TxPlan{Spec: lab.TxSpec{Msgs: []sdk.Msg{sp}, Signers: []lab.Acct{a0}, Gas: 3_000_000}, Desc: "gov-submit (to be vetoed)"})
	if ok && r.Code == 0 {
		var pid uint64
		if v, ok := lab.EventAttr(r.Events, "submit_proposal", "proposal_id"); ok {
			fmt.Sscan(v, &pid)
		}
		e.Deliver(&TxPlan{Spec: lab.TxSpec{Msgs: []sdk.Msg{govv1.NewMsgVote(a0.Addr, pid, govv1.OptionNoWithVeto, "")}, Signers: []lab.Acct{a0}, Gas: 1_000_000}, Desc: "gov-veto"})
	}
	e.EndBlock()
	e.BeginBlock(11 * time.Second)
	e.EndBlock()
	e.C.Count("gov_vetoes", 1)
}

// RunMixed drives a mixed history with the given weights; the caller attaches monitors first.
func RunMixed(e *Env, g *Gen, w MixWeights, nBlocks int) {
	r := e.R
	denoms := []string{lab.Denom, lab.Denom2, lab.DenomBig}
	feeGranted := map[string]sdk.AccAddress{}
	for b := 0; b < nBlocks && e.Halted == ""; b++ {
		if e.Last == nil {
			e.Last = e.L.Observe(e.L.Ctx())
		}
		if w.ReimportPct > 0 && b > 3 && r.Chance(w.ReimportPct) {
			e.Reimport()
		}
		if r.Chance(w.GovPct) {
			mixedGovChange(e, r)
			continue
		}
		if r.Chance(w.VetoPct) {
			govVeto(e)
			continue
		}
		dts := []time.Duration{time.Second, 2 * time.Second, 7 * time.Second, 30 * time.Second, 500 * time.Second, 1500 * time.Millisecond, 90000 * time.Second}
		e.BeginBlock(dts[r.Weighted([]int{30, 20, 20, 10, 8, 8, 4})])
		ntx := r.Range(1, 5)
		for i := 0; i < ntx && e.Halted == ""; i++ {
			obs := e.Last
			var tx *TxPlan
			switch r.Weighted([]int{w.Ent, w.Reg, w.Stream, w.Bank, w.Staking}) {
			case 0:
				tx = g.EntTx(obs, w.EntHostile)
			case 1:
				tx = g.WrkBeaconTx(obs, 8, w.ExactFeePct)
			case 2:
				tx = g.StreamTx(obs, 10, denoms)
			case 3:
				tx = g.BankTx(obs, 35)
			default:
				tx = g.StakingTx(obs)
			}
			signer := tx.Spec.Signers[0]
			if r.Chance(w.NestedPct) {
				grantee := g.randAcct()
				if !grantee.Addr.Equals(signer.Addr) {
					for _, gp := range g.EnsureGrants(signer, grantee, tx.Spec.Msgs) {
						e.Deliver(gp)
					}
					wrapped := WrapExec(grantee, tx.Spec.Msgs, 1+r.Intn(2))
					tx = &TxPlan{Spec: lab.TxSpec{Msgs: []sdk.Msg{wrapped}, Signers: []lab.Acct{grantee}, Fee: tx.Spec.Fee, Gas: 900_000},
						Desc: fmt.Sprintf("%s by a%d(for a%d) fee=%s", descMsgs([]sdk.Msg{wrapped}), g.idx(grantee), g.idx(signer), tx.Spec.Fee)}
					signer = grantee
				}
			}
			if r.Chance(w.GranterPct) {
				granter := g.randAcct()
				if !granter.Addr.Equals(signer.Addr) {
					k := granter.Addr.String() + ">" + signer.Addr.String()
					if feeGranted[k] == nil {
						e.Deliver(g.FeeGrantPlan(granter, signer))
						feeGranted[k] = granter.Addr
					}
					tx.Spec.Granter = granter.Addr
					tx.Desc += fmt.Sprintf(" granter=a%d", g.idx(granter))
				}
			}
			if tx.Spec.Granter == nil && len(tx.Spec.Signers) == 1 && r.Chance(w.CoSignPct) {
				// a transaction of two signers: the second one contributes a bank transfer and, half of
				// the time, is named as the fee payer (the fee - and any eFUND unlock - is then its own)
				co, to := g.randAcct(), g.randAcct()
				if !co.Addr.Equals(signer.Addr) {
					tx.Spec.Msgs = append(tx.Spec.Msgs, banktypes.NewMsgSend(co.Addr, to.Addr, sdk.NewCoins(sdk.NewInt64Coin(lab.Denom2, 1))))
					tx.Spec.Signers = append(tx.Spec.Signers, co)
					tx.Desc += fmt.Sprintf(" cosigned=a%d", g.idx(co))
					if r.Bool() {
						tx.Spec.Payer = co.Addr
						tx.Desc += "(payer)"
					}
					if tx.Spec.Gas == 0 {
						tx.Spec.Gas = 600_000
					}
					e.C.Count("cosigned_txs", 1)
				}
			}
			if r.Chance(w.BadSeqPct) {
				tx.Spec.SeqDelta = int64(r.Range(1, 3))
				tx.Desc += " BADSEQ"
			}
			if r.Chance(w.LowGasPct) {
				tx.Spec.Gas = uint64(r.Range(30_000, 90_000))
				tx.Desc += fmt.Sprintf(" gas=%d", tx.Spec.Gas)
			}
			e.Deliver(tx)
		}
		e.EndBlock()
	}
}

// haltMonitor turns a panic escaping a block phase into a counter (the owning property is C14).
func noteHalt(e *Env) {
	if e.Halted != "" {
		e.C.Count("halted_histories", 1)
	}
}

func init() {
	cases := func(q, t int) func(string) int {
		return func(tier string) int {
			if tier == "thorough" {
				return t
			}
			return q
		}
	}
	common := []string{"entity counts are small (<= 9 accounts); one bonded validator; governance voting period 10 s", "the enterprise denomination is never changed in these histories (C14 owns that)"}
	fw.Register(&fw.Property{ID: "C02", Level: "exploration", Cases: cases(160, 6000), Assumptions: common, Need: []string{"mints", "block_boundaries", "ok_MsgUndPurchaseOrder", "ok_MsgProcessUndPurchaseOrder", "ok_MsgWhitelistAddress"},
		Rule: "each case: random genesis parameters (1-3 signers, account kinds incl. vesting, starting ids) + 40-60 block mixed history of enterprise / WRKChain / BEACON / stream / bank / staking txs, authz-nested and fee-granted variants, bad sequences, governance parameter changes and vetoed proposals (protocol burn). Per block phase and per tx: supply delta == completing orders - burn events; mint events only in BeginBlock by the enterprise account; at every boundary sum of all balances == supply per denom and every crisis-registered invariant holds. distinct = tx kind x nesting x outcome; non-trivial = history with >=1 mint and >=1 non-enterprise tx",
		Run:  func(c *fw.Ctx) { runMixedProp(c, "C02") }})
	fw.Register(&fw.Property{ID: "C04", Level: "exploration", Cases: cases(160, 6000), Assumptions: common, Need: []string{"completions", "unlocks", "book_checks", "ok_MsgUndPurchaseOrder", "ok_MsgProcessUndPurchaseOrder", "ok_MsgWhitelistAddress", "ok_MsgRegisterWrkChain", "ok_MsgRegisterBeacon", "ok_MsgRecordWrkChainBlock", "ok_MsgRecordBeaconTimestamp"},
		Rule: "mixed histories (as C02) with purchasers paying WRKChain/BEACON fees from locked eFUND and hostile transfers aimed at the escrow (MsgSend, MultiSend, authz-wrapped sends, streams towards it). At every boundary: escrow balance == TotalLocked == sum per-account locked, TotalSpent == sum per-account spent (keeper lists and the four gRPC queries), locked+spent == sum completed orders per account; every escrow delta attributed to an order completion (BeginBlock) or the payer's fee unlock. distinct = unlock kind; non-trivial = history with >=1 completion and >=1 unlock",
		Run:  func(c *fw.Ctx) { runMixedProp(c, "C04") }})
	fw.Register(&fw.Property{ID: "C05", Level: "exploration", Cases: cases(192, 8000), Assumptions: common, Need: []string{"unlocks_observed", "completions_observed", "ok_MsgUndPurchaseOrder", "ok_MsgProcessUndPurchaseOrder", "ok_MsgWhitelistAddress", "ok_MsgRegisterWrkChain", "ok_MsgRegisterBeacon", "ok_MsgRecordWrkChainBlock", "ok_MsgRecordBeaconTimestamp"},
		Rule: "mixed histories with purchasers of every account kind (base, delayed/continuous/periodic vesting, permanent-locked), fee sets {none, low, exact, high, extra denom}, fee granters, bad sequences, nested WRKChain/BEACON ops. Per DeliverTx for every account: locked falls only for the fee payer of a tx with a top-level WRKChain/BEACON message that passed ante, by exactly min(fee, locked), recorded as spent; at a completion the purchaser's spendable (same block time) does not rise. distinct = (account kind, locked vs fee, granter?, fee denoms, outcome)",
		Run:  func(c *fw.Ctx) { runMixedProp(c, "C05") }})
	fw.Register(&fw.Property{ID: "C17", Level: "exploration", Cases: cases(128, 4000), Assumptions: append(common, "total native supply stays below 2^63 (EnterpriseSupply is uint64-typed by its API)"), Need: []string{"supply_queries", "page_walks"},
		Rule: "mixed histories with 3 denominations; at every block boundary, through the committed-state query context: SupplyOf/SupplyOfOverwrite for every denom, EnterpriseSupply, TotalUnlocked vs bank supply - TotalLocked; TotalSupply/TotalSupplyOverwrite walked with every page size 1..n+2 by key and by offset, each denom exactly once. distinct = (eFUND state zero/partial/spent, number of denoms)",
		Run:  func(c *fw.Ctx) { runMixedProp(c, "C17") }})
}

func runMixedProp(c *fw.Ctx, prop string) {
	r := c.Rng
	o := RandOptions(r)
	w := defaultMix
	switch prop {
	case "C04", "C05":
		w.Ent, w.Reg, w.Stream, w.Bank = 35, 40, 5, 15
		w.EntHostile = 8
		w.ExactFeePct = 55
		o.Ent.MinAccepts = 1
		o.Ent.DecisionTimeLimit = 1000
		// purchasers of every account kind
		kinds := []string{"delayed", "continuous", "periodic", "permlocked"}
		for i := 2; i < o.NAccts; i++ {
			if r.Chance(50) {
				o.Kinds[i] = kinds[r.Intn(4)]
			}
		}
		for i := 1; i < o.NAccts; i++ {
			if r.Chance(60) {
				o.Whitelist = append(o.Whitelist, i)
			}
		}
		o.Whitelist = dedupInts(o.Whitelist)
		// one whitelisted purchaser owns no liquid native coins at all: everything it pays, it pays
		// from eFUND (its books must still add up and be reported)
		if r.Chance(60) && len(o.Whitelist) > 0 {
			if k := o.Whitelist[r.Intn(len(o.Whitelist))]; k >= 2 {
				o.NativeBalOf = map[int]int64{k: 0}
				delete(o.Kinds, k)
			}
		}
	case "C17":
		w.Ent, w.Reg = 40, 35
		o.Ent.MinAccepts = 1
		// 3-8 denominations, sorting before, between, just around and after the native one
		for _, d := range []string{"aaa", "ibc/27394FB092D2ECCD56123C74F36E4C1F926001CEADA9CA97EA622B25F41E5EB2", "nunc", "nune", "uzzz", "zzz"} {
			if r.Chance(40) {
				o.ExtraDenoms = append(o.ExtraDenoms, d)
			}
		}
	case "C02":
		o.Ent.MinAccepts = uint64(minInt(int(o.Ent.MinAccepts), 2))
	}
	if (prop == "C02" || prop == "C04" || prop == "C17") && r.Chance(12) {
		// a genesis document may hold a raised order of an address the bank refuses to pay (a blocked
		// module account): no transaction can raise one, so whatever BeginBlock does with it once the
		// signers accept (on this tree: halt) it must not create coins without completing the order,
		// and the books / the reported supply must stay right
		mod := []string{"fee_collector", "distribution", "bonded_tokens_pool", "not_bonded_tokens_pool", "stream", "enterprise"}[r.Intn(6)]
		o.GenesisPOs = append(o.GenesisPOs, enttypes.EnterpriseUndPurchaseOrder{Id: o.PoStartID, Purchaser: lab.ModAddr(mod).String(),
			Amount: sdk.NewInt64Coin(o.Ent.Denom, int64(r.Range(1, 1_000_000))), Status: enttypes.StatusRaised, RaiseTime: uint64(lab.StartTime.Unix())})
		o.ExtraWhitelist = append(o.ExtraWhitelist, lab.ModAddr(mod).String())
		o.PoStartID++
		c.Count("genesis_orders_of_blocked_module_accounts", 1)
	}
	if prop == "C02" && c.Case%4 == 0 {
		c02GenesisProbes(c, o)
	}
	if r.Chance(25) { // a quarter of the histories cross one or two export/import boundaries
		w.ReimportPct = 4
	}
	e := NewEnv(c, o)
	defer e.L.Cleanup()
	g := NewGen(e)
	nonEnt := 0
	stat := &Monitor{Name: "mix-stats", AfterTx: func(e *Env, tx *TxPlan, pre, post *lab.Obs, resp abci.ResponseDeliverTx) {
		leaves, nested := Flatten(tx.Spec.Msgs)
		if len(leaves) == 0 {
			return
		}
		n := "top"
		if nested[0] {
			n = "nested"
		}
		out := "ok"
		if resp.Code != 0 {
			out = "fail"
		}
		if !strings.HasPrefix(sdk.MsgTypeURL(leaves[0]), "/mainchain.enterprise") {
			nonEnt++
		}
		if prop == "C02" {
			c.Distinct(fmt.Sprintf("%s/%s/%s", msgName(leaves[0]), n, out))
		}
	}}
	switch prop {
	case "C02":
		// the supply a client is served (the enterprise endpoints replace the bank's) must be the
		// recorded one for every denomination other than the native: checked at every 4th boundary
		sq := NewSupplyQueriesMonitor(e)
		inner := sq.AfterBlock
		nb := 0
		sq.AfterBlock = func(e *Env, o *lab.Obs) {
			if nb++; nb%4 == 0 {
				inner(e, o)
			}
		}
		e.Monitors = append(e.Monitors, NewSupplyMonitor(e), stat, sq)
	case "C04":
		e.Monitors = append(e.Monitors, NewLockedBooksMonitor(e), stat)
	case "C05":
		e.Monitors = append(e.Monitors, NewLockedSpendMonitor(e), stat)
	case "C17":
		e.Monitors = append(e.Monitors, NewSupplyQueriesMonitor(e), stat)
	}
	if prop == "C04" && r.Chance(25) {
		govPurchaser(e, g)
	}
	RunMixed(e, g, w, r.Range(40, 60))
	noteHalt(e)
	c.Count("txs", int64(e.NTx))
	if nonEnt > 0 && e.NTx > 20 {
		c.Nontrivial()
	}
	if c.Case < 2 {
		c.Sample(map[string]interface{}{"genesis": fmt.Sprintf("ent=%v kinds=%v whitelist=%v", o.Ent, o.Kinds, o.Whitelist), "trace_tail": e.TraceTail(30)})
	}
}

// govPurchaser: the one module account that can act at all (through proposals) buys eFUND - it is
// whitelisted by a signer, the order is raised by a governance proposal naming the gov account as
// purchaser, and a signer accepts it. Its books must add up like anybody's.
func govPurchaser(e *Env, g *Gen) {
	e.Block(time.Second)
	if e.Halted != "" || e.Last == nil {
		return
	}
	var s *lab.Acct
	for i := range e.L.Accts {
		if isSigner(e.Last, e.L.Accts[i]) {
			s = &e.L.Accts[i]
			break
		}
	}
	if s == nil {
		return
	}
	gov := lab.GovAuthority()
	e.Block(time.Second, &TxPlan{Spec: lab.TxSpec{Msgs: []sdk.Msg{&enttypes.MsgWhitelistAddress{Address: gov, Signer: s.Addr.String(), Action: enttypes.WhitelistActionAdd}}, Signers: []lab.Acct{*s}, Gas: 1_000_000}, Desc: "whitelist the gov module account"})
	known := map[uint64]bool{}
	for _, id := range e.Last.RaisedQ {
		known[id] = true
	}
	if !e.Gov("the gov module account raises a purchase order for itself", &enttypes.MsgUndPurchaseOrder{Purchaser: gov, Amount: sdk.NewInt64Coin(e.Last.EntParams.Denom, int64(e.R.Range(1000, 5_000_000)))}) {
		return
	}
	for _, id := range e.Last.RaisedQ {
		if !known[id] && ownerHex(findPO(e.Last, id).Purchaser) == ownerHex(gov) {
			e.Block(time.Second, &TxPlan{Spec: lab.TxSpec{Msgs: []sdk.Msg{&enttypes.MsgProcessUndPurchaseOrder{PurchaseOrderId: id, Decision: enttypes.StatusAccepted, Signer: s.Addr.String()}}, Signers: []lab.Acct{*s}, Gas: 1_000_000}, Desc: fmt.Sprintf("accept the gov account's order %d", id)})
			e.C.Count("gov_purchaser_orders", 1)
		}
	}
}

func minInt(a, b int) int {
	if a < b {
		return a
	}
	return b
}
