package props

import (
	"fmt"
	"time"

	"cosmossdk.io/math"
	sdk "github.com/cosmos/cosmos-sdk/types"

	"verifharness/fw"
	"verifharness/lab"

	streamtypes "github.com/unification-com/mainchain/x/stream/types"
)

// Small-scope enumeration for the stream properties (C10/C11/C12): ONE stream a1 -> a2 (plus a
// bystander stream a3 -> a4 of the same denomination, so that a double release has something to
// eat) is driven through a sequence of tokens over a small alphabet. Ticks end the block, every
// other token is a transaction in the current block, so "rate change and top-up in one block",
// "claim exactly at the zero time", "top-up of a drained stream after a gap", ... are all
// visited systematically rather than by luck. The stream monitors judge every transaction.
var streamEnumAlphabet = []string{"tick1s", "tick0.4s", "tick-to-zero-time", "tick-past-zero-time", "claim", "topup", "rate-up", "rate-down", "cancel", "create", "tick3s"}

// streamEnumSeq: in the thorough tier the first len(alphabet)^4 enumeration cases are every
// sequence of length 4 (each preceded by a create); in the quick tier the first 2 x len(alphabet)^2
// are every ordered pair (twice, see below); all others are PRNG-drawn with length 5-8.
func streamEnumSeq(c *fw.Ctx, idx int) []string {
	n := len(streamEnumAlphabet)
	if c.Thorough() && idx < n*n*n*n {
		seq := []string{"create"}
		for k := 0; k < 4; k++ {
			seq = append(seq, streamEnumAlphabet[idx%n])
			idx /= n
		}
		return seq
	}
	if !c.Thorough() && idx < 2*n*n {
		// quick tier: every ordered PAIR of tokens back to back (two operations in one block, an
		// operation right after each kind of tick) - once after a PRNG-drawn token, once on a stream
		// that is two seconds away from running dry (a remainder smaller than most new rates)
		pre := streamEnumAlphabet[c.Rng.Intn(n)]
		if idx >= n*n {
			pre, idx = "tick-near-zero", idx-n*n
		}
		return []string{"create", pre, streamEnumAlphabet[idx%n], streamEnumAlphabet[idx/n], "tick1s", "claim"}
	}
	l := c.Rng.Range(5, 8)
	seq := []string{"create"}
	for k := 0; k < l; k++ {
		seq = append(seq, streamEnumAlphabet[c.Rng.Intn(n)])
	}
	return seq
}

func driveStreamEnum(c *fw.Ctx, e *Env, g *Gen, seq []string, afterBlock func()) {
	ac := e.L.Accts
	snd, rcv := ac[1], ac[2]
	denom := []string{lab.Denom, lab.Denom2}[c.Rng.Intn(2)]
	find := func() *streamtypes.Stream {
		for i := range e.Last.Streams {
			if skey(e.Last.Streams[i].Sender, e.Last.Streams[i].Receiver) == skey(snd.Addr.String(), rcv.Addr.String()) {
				return &e.Last.Streams[i].Stream
			}
		}
		return nil
	}
	// bystander stream: large, slow, same denomination
	e.Block(time.Second, g.plan(ac[3], nil, &streamtypes.MsgCreateStream{Receiver: ac[4].Addr.String(), Sender: ac[3].Addr.String(), Deposit: sdk.NewInt64Coin(denom, 1_000_000), FlowRate: 1}))
	e.BeginBlock(time.Second)
	tick := func(dt time.Duration) {
		e.EndBlock()
		if afterBlock != nil && e.Halted == "" {
			afterBlock()
		}
		e.BeginBlock(dt)
	}
	for _, tok := range seq {
		if e.Halted != "" {
			return
		}
		st := find()
		now := e.L.Time
		switch tok {
		case "tick1s":
			tick(time.Second)
		case "tick3s":
			tick(3 * time.Second)
		case "tick0.4s":
			tick(400 * time.Millisecond)
		case "tick-to-zero-time":
			dt := time.Second
			if st != nil && st.DepositZeroTime.After(now) && st.DepositZeroTime.Sub(now) < 100*365*24*time.Hour {
				dt = st.DepositZeroTime.Sub(now)
			}
			tick(dt)
		case "tick-near-zero": // (not in the alphabet: used by the quick tier's pair cases only)
			dt := time.Second
			if st != nil && st.DepositZeroTime.Sub(now) > 2*time.Second && st.DepositZeroTime.Sub(now) < 100*365*24*time.Hour {
				dt = st.DepositZeroTime.Sub(now) - 2*time.Second
			}
			tick(dt)
		case "tick-past-zero-time":
			dt := 7 * time.Second
			if st != nil && st.DepositZeroTime.After(now) && st.DepositZeroTime.Sub(now) < 100*365*24*time.Hour {
				dt = st.DepositZeroTime.Sub(now) + 5*time.Second
			}
			tick(dt)
		case "create":
			rate := int64(c.Rng.PickU64([]uint64{1, 10, 7}))
			dep := rate*60 + int64(c.Rng.Intn(3))
			e.Deliver(g.plan(snd, nil, &streamtypes.MsgCreateStream{Receiver: rcv.Addr.String(), Sender: snd.Addr.String(), Deposit: sdk.NewInt64Coin(denom, dep), FlowRate: rate}))
		case "claim":
			e.Deliver(g.plan(rcv, nil, &streamtypes.MsgClaimStream{Receiver: rcv.Addr.String(), Sender: snd.Addr.String()}))
		case "topup":
			rate := int64(10)
			if st != nil {
				rate = st.FlowRate
			}
			amt := math.NewInt(rate).MulRaw(int64(c.Rng.PickU64([]uint64{1, 3, 60}))).AddRaw(int64(c.Rng.Intn(2)))
			e.Deliver(g.plan(snd, nil, &streamtypes.MsgTopUpDeposit{Receiver: rcv.Addr.String(), Sender: snd.Addr.String(), Deposit: sdk.NewCoin(denom, amt)}))
		case "rate-up", "rate-down":
			rate := int64(10)
			if st != nil {
				rate = st.FlowRate
			}
			nr := rate*3 + 1
			if tok == "rate-down" {
				nr = rate / 2
				if nr < 1 {
					nr = 1
				}
			}
			e.Deliver(g.plan(snd, nil, &streamtypes.MsgUpdateFlowRate{Receiver: rcv.Addr.String(), Sender: snd.Addr.String(), FlowRate: nr}))
		case "cancel":
			e.Deliver(g.plan(snd, nil, &streamtypes.MsgCancelStream{Receiver: rcv.Addr.String(), Sender: snd.Addr.String()}))
		}
		c.Distinct("enum-token/" + tok)
	}
	// flush: let whatever is left run out, claim it, cancel, and let the bystander be paid too
	tick(2 * time.Second)
	e.Deliver(g.plan(rcv, nil, &streamtypes.MsgClaimStream{Receiver: rcv.Addr.String(), Sender: snd.Addr.String()}))
	tick(90 * time.Second)
	e.Deliver(g.plan(rcv, nil, &streamtypes.MsgClaimStream{Receiver: rcv.Addr.String(), Sender: snd.Addr.String()}))
	e.Deliver(g.plan(snd, nil, &streamtypes.MsgCancelStream{Receiver: rcv.Addr.String(), Sender: snd.Addr.String()}))
	e.Deliver(g.plan(ac[4], nil, &streamtypes.MsgClaimStream{Receiver: ac[4].Addr.String(), Sender: ac[3].Addr.String()}))
	tick(2_000_000 * time.Second)
	e.Deliver(g.plan(ac[4], nil, &streamtypes.MsgClaimStream{Receiver: ac[4].Addr.String(), Sender: ac[3].Addr.String()}))
	e.EndBlock()
	if afterBlock != nil && e.Halted == "" {
		afterBlock()
	}
	c.Count("enum_sequences", 1)
	c.Count("enum_tokens", int64(len(seq)))
	_ = fmt.Sprint
}
