package props

import (
	"fmt"
	"strings"
	"time"

	abci "github.com/cometbft/cometbft/abci/types"
	sdk "github.com/cosmos/cosmos-sdk/types"

	"verifharness/fw"
	"verifharness/lab"

	beacontypes "github.com/unification-com/mainchain/x/beacon/types"
	wrkchaintypes "github.com/unification-com/mainchain/x/wrkchain/types"
)

var c07Rules = map[string]bool{"record-height-not-above-last": true, "record-content": true, "point-query-content": true, "point-query-missing": true,
	"record-field-limits": true, "failed-tx-changed-registry": true, "point-query-owner": true, "counter-last": true, "record-lost-within-retention": true}
var c08Rules = map[string]bool{"retention-set": true, "counter-num-in-state": true, "counter-lowest": true, "counter-last": true, "limit-mismatch": true,
	"purchase-above-max": true, "purchase-zero": true, "storage-query-counters": true, "storage-query-max-purchasable": true, "storage-query-error": true,
	"point-query-pruned-still-served": true, "point-query-missing": true, "record-lost-within-retention": true}
var c09Rules = map[string]bool{"next-id": true, "registration-set": true, "registration-missing": true, "owner-changed": true, "fields-changed": true,
	"regtime-changed": true, "record-by-non-owner": true, "purchase-by-non-owner": true, "record-unknown-id": true, "purchase-unknown-id": true,
	"register-field-limits": true, "listing-order": true, "failed-tx-changed-registry": true, "listing-fields": true, "listing-error": true}

func init() {
	mk := func(id string, rules map[string]bool, rule string, need []string) {
		fw.Register(&fw.Property{
			ID: id, Level: "exploration", Rule: rule,
			// cases: [0, base) random histories, [base, base+enum) small-scope enumeration (c07enum.go),
			// then for C08 one export-cap case (> 20 000 retained records through an export/import)
			Cases: func(tier string) int {
				n := 128 + regEnumQuick
				if tier == "thorough" {
					n = 4000 + regEnumThorough()
				}
				if id == "C08" {
					n++
				}
				return n
			},
			Run: func(c *fw.Ctx) {
				base, enum := 128, regEnumQuick
				if c.Thorough() {
					base, enum = 4000, regEnumThorough()
				}
				if id == "C08" && c.Case == base+enum {
					c15CapCase(c, func(rule string) bool { return rule == "export-cap-counters" || rule == "export-cap-continuation" })
					return
				}
				runRegistryHistory(c, id, rules)
			},
			// besides the rule counters: every kind of operation of both modules must have gone through
			// at least once, or the run has not observed what the property speaks about (inconclusive)
			Need: append(need, "ok_MsgRegisterWrkChain", "ok_MsgRegisterBeacon", "ok_MsgRecordWrkChainBlock", "ok_MsgRecordBeaconTimestamp", "ok_MsgPurchaseWrkChainStateStorage", "ok_MsgPurchaseBeaconStateStorage"),
			Assumptions: []string{"entity counts per history are small (<= 6 registrations per module, <= ~80 records each) so that every record ever accepted can be re-queried after every operation",
				"single-signer transactions; nesting through real x/authz grants + MsgExec (depth 1-2)"},
		})
	}
	mk("C07", c07Rules, "each case is a random genesis parameter set + a 30-50 block history of WRKChain/BEACON register/record/purchase transactions (owners and non-owners, stale/equal/next/gap/2^63/2^64-2 heights, field sizes around the limits, 1-3 messages per tx, authz-nested variants, governance changes of limits and fees); after EVERY transaction and block every record ever accepted is re-queried through the gRPC query servers and compared with the submitted content; failed transactions must leave both module stores byte-identical. distinct = (module, height-relation|field-size class, outcome); non-trivial = history with >=1 rejected overwrite attempt and >=1 prune",
		[]string{"records_accepted", "overwrite_attempts_rejected", "prunes"})
	mk("C08", c08Rules, "same history engine as C07 with purchase-heavy weights (0, exact-to-max, over-max, 2^63, wrapping counts; top-level, several per tx, authz-nested) and governance raising/lowering default and max limits mid-history; after every transaction the retention set, the counters, the limit ledger and the *Storage query are compared with the reference model. distinct = (module, limit, purchase class, outcome, pruned?); non-trivial = history where a registration both pruned and purchased",
		[]string{"prunes", "purchases_ok", "purchases_rejected"})
	mk("C09", c09Rules, "same history engine with many owners registering in both modules interleaved, fields at and beyond size limits, starting ids {1,1000,2^32+5}, a re-import whose genesis lists the registrations in reverse id order, and periodic full (signer x id) cross-product probe blocks of record and purchase attempts; ids must be sequential from the genesis starting id, stored fields frozen, non-owner/unknown-id attempts rejected with both module stores byte-identical. distinct = (module, op, owner?/known id?, outcome); non-trivial = history with >=3 owners and >=1 cross-product probe",
		[]string{"registrations", "nonowner_attempts_rejected", "probe_blocks"})
}

func runRegistryHistory(c *fw.Ctx, prop string, rules map[string]bool) {
	r := c.Rng
	o := RandOptions(r)
	isEnum := (c.Thorough() && c.Case >= 4000) || (!c.Thorough() && c.Case >= 128)
	if isEnum || (prop == "C08" && r.Chance(50)) || (prop == "C07" && r.Chance(40)) { // tiny limits make pruning frequent
		o.Wrk.DefaultStorageLimit, o.Wrk.MaxStorageLimit = 1, uint64(r.Range(1, 4))
		o.Beacon.DefaultStorageLimit, o.Beacon.MaxStorageLimit = uint64(r.Range(1, 2)), uint64(r.Range(2, 5))
	}
	e := NewEnv(c, o)
	defer e.L.Cleanup()
	e.Snap = true
	g := NewGen(e)
	g.SeqHeights = prop == "C07" && r.Chance(60)
	filter := func(rule string) bool { return rules[rule] }
	rm, mon := NewRegistryMonitor(e, filter)
	e.Monitors = append(e.Monitors, mon)
	// statistics + "failed ⇒ registry stores unchanged"
	owners := map[string]bool{}
	stat := &Monitor{Name: "registry-stats"}
	stat.AfterTx = func(e *Env, tx *TxPlan, pre, post *lab.Obs, resp abci.ResponseDeliverTx) {
		leaves, nested := Flatten(tx.Spec.Msgs)
		ok := resp.Code == 0
		out := "ok"
		if !ok {
			out = "rejected"
			for _, d := range lab.DiffSnapshots(e.PreSnap, e.PostSnap) {
				if d.Store == "wrkchain" || d.Store == "beacon" {
					if filter("failed-tx-changed-registry") {
						c.Violate("failed-tx-changed-registry", d.Store, "tx %s failed (code %d: %s) but changed %s", tx.Desc, resp.Code, firstN(resp.Log, 80), d.String())
					}
				}
			}
		}
		for i, lf := range leaves {
			nest := "top"
			if nested[i] {
				nest = "nested"
			}
			switch x := lf.(type) {
			case *wrkchaintypes.MsgRegisterWrkChain:
				if ok {
					c.Count("registrations", 1)
					owners[ownerHex(x.Owner)] = true
				}
				c.Distinct(fmt.Sprintf("wrk/register/%s/mon%d/%s", nest, sizeClass(len(x.Moniker), 64), out))
			case *beacontypes.MsgRegisterBeacon:
				if ok {
					c.Count("registrations", 1)
					owners[ownerHex(x.Owner)] = true
				}
				c.Distinct(fmt.Sprintf("beacon/register/%s/mon%d/%s", nest, sizeClass(len(x.Moniker), 64), out))
			case *wrkchaintypes.MsgRecordWrkChainBlock:
				rel, isOwner := "unknown-id", false
				if w := findWrk(pre, x.WrkchainId); w != nil {
					isOwner = ownerHex(w.Owner) == ownerHex(x.Owner)
					switch {
					case x.Height < w.Lastblock:
						rel = "lower"
					case x.Height == w.Lastblock:
						rel = "equal"
					case x.Height == w.Lastblock+1:
						rel = "next"
					case x.Height >= 1<<63:
						rel = "huge"
					default:
						rel = "gap"
					}
				}
				c.Distinct(fmt.Sprintf("wrk/record/%s/%s/owner=%v/hash%d/%s", nest, rel, isOwner, sizeClass(len(x.BlockHash), 66), out))
				if ok {
					c.Count("records_accepted", 1)
				} else {
					if rel == "lower" || rel == "equal" {
						c.Count("overwrite_attempts_rejected", 1)
					}
					if !isOwner {
						c.Count("nonowner_attempts_rejected", 1)
					}
				}
			case *beacontypes.MsgRecordBeaconTimestamp:
				isOwner, known := false, false
				if b := findBeacon(pre, x.BeaconId); b != nil {
					known = true
					isOwner = ownerHex(b.Owner) == ownerHex(x.Owner)
				}
				c.Distinct(fmt.Sprintf("beacon/record/%s/known=%v/owner=%v/hash%d/%s", nest, known, isOwner, sizeClass(len(x.Hash), 66), out))
				if ok {
					c.Count("records_accepted", 1)
				} else if !isOwner {
					c.Count("nonowner_attempts_rejected", 1)
					c.Count("overwrite_attempts_rejected", 1) // a foreign submission aimed at an existing beacon
				}
			case *wrkchaintypes.MsgPurchaseWrkChainStateStorage:
				cl := purchaseClass(pre.WrkLimit[x.WrkchainId], x.Number, pre.WrkParams.MaxStorageLimit)
				c.Distinct(fmt.Sprintf("wrk/purchase/%s/%s/%s", nest, cl, out))
				if ok {
					c.Count("purchases_ok", 1)
				} else {
					c.Count("purchases_rejected", 1)
				}
			case *beacontypes.MsgPurchaseBeaconStateStorage:
				cl := purchaseClass(pre.BeaconLimit[x.BeaconId], x.Number, pre.BeaconParams.MaxStorageLimit)
				c.Distinct(fmt.Sprintf("beacon/purchase/%s/%s/%s", nest, cl, out))
				if ok {
					c.Count("purchases_ok", 1)
				} else {
					c.Count("purchases_rejected", 1)
				}
			}
		}
	}
	e.Monitors = append(e.Monitors, stat)

	enumBase := 128
	if c.Thorough() {
		enumBase = 4000
	}
	if idx := c.Case - enumBase; idx >= 0 {
		seq := regEnumSeq(c, idx)
		e.tracef("registry enumeration: %v", seq)
		driveRegEnum(c, e, g, seq)
		if e.Halted != "" {
			c.Count("halted_histories", 1)
		}
		for _, m := range []*RegistryModel{rm.Wrk, rm.Beacon} {
			for _, en := range m.Entries {
				c.Count("prunes", int64(en.Pruned))
			}
		}
		c.Count("point_queries", int64(rm.Evals))
		c.Count("txs", int64(e.NTx))
		c.Nontrivial()
		if idx < 2 {
			c.Sample(map[string]interface{}{"enumeration_sequence": seq, "trace_tail": e.TraceTail(25)})
		}
		return
	}
	nBlocks := r.Range(30, 50)
	probes := 0
	// a fifth of the histories move, at some block boundary, to a fresh chain initialised from an export
	reimportAt := -1
	if r.Chance(20) {
		reimportAt = r.Range(8, nBlocks-5)
	}
	for b := 0; b < nBlocks && e.Halted == ""; b++ {
		obs := e.Last
		if obs == nil {
			obs = e.L.Observe(e.L.Ctx())
		}
		// occasional governance change of limits / fees
		if r.Chance(6) {
			regGovChange(e, r, prop)
			if prop == "C08" && e.Halted == "" {
				// after the limits moved (possibly below existing limits): every owner tries to buy one
				// slot wrapped in MsgExec (nested purchases bypass the ante max-slot check)
				e.BeginBlock(time.Second)
				for _, w := range e.Last.Wrk {
					if ow, ok := g.acctByAddr(w.Owner); ok && r.Chance(60) {
						m := &wrkchaintypes.MsgPurchaseWrkChainStateStorage{WrkchainId: w.WrkchainId, Number: uint64(r.Range(1, 3)), Owner: ow.Addr.String()}
						e.Deliver(&TxPlan{Spec: lab.TxSpec{Msgs: []sdk.Msg{WrapExec(ow, []sdk.Msg{m}, 1)}, Signers: []lab.Acct{ow}, Gas: 900_000}, Desc: fmt.Sprintf("Exec[WrkBuy(id=%d,n=%d)] by owner after limit change", w.WrkchainId, m.Number)})
					}
				}
				for _, b := range e.Last.Beacons {
					if ow, ok := g.acctByAddr(b.Owner); ok && r.Chance(60) {
						m := &beacontypes.MsgPurchaseBeaconStateStorage{BeaconId: b.BeaconId, Number: uint64(r.Range(1, 3)), Owner: ow.Addr.String()}
						e.Deliver(&TxPlan{Spec: lab.TxSpec{Msgs: []sdk.Msg{WrapExec(ow, []sdk.Msg{m}, 1)}, Signers: []lab.Acct{ow}, Gas: 900_000}, Desc: fmt.Sprintf("Exec[BcnBuy(id=%d,n=%d)] by owner after limit change", b.BeaconId, m.Number)})
					}
				}
				e.EndBlock()
			}
			continue
		}
		// cross-product probe block
		if prop == "C09" && b > 8 && b%12 == 0 {
			regProbeBlock(e, g)
			probes++
			c.Count("probe_blocks", 1)
			continue
		}
		if b == reimportAt {
			e.Reimport()
		}
		// the gov module account - the one account whose messages need no signature - names itself
		// as owner of somebody's registration in a proposal: nothing of it may take effect (the model
		// knows purchases and records of the registered owner only)
		if b > 4 && e.Last != nil && len(e.Last.Wrk)+len(e.Last.Beacons) > 0 && r.Chance(4) {
			gov := lab.GovAuthority()
			var m sdk.Msg
			if k := r.Intn(len(e.Last.Wrk) + len(e.Last.Beacons)); k < len(e.Last.Wrk) {
				w := e.Last.Wrk[k]
				if r.Chance(65) {
					m = &wrkchaintypes.MsgPurchaseWrkChainStateStorage{WrkchainId: w.WrkchainId, Number: uint64(r.Range(1, 3)), Owner: gov}
				} else {
					m = &wrkchaintypes.MsgRecordWrkChainBlock{WrkchainId: w.WrkchainId, Height: w.Lastblock + 1, BlockHash: g.hash(32), Owner: gov}
				}
			} else {
				bc := e.Last.Beacons[k-len(e.Last.Wrk)]
				if r.Chance(65) {
					m = &beacontypes.MsgPurchaseBeaconStateStorage{BeaconId: bc.BeaconId, Number: uint64(r.Range(1, 3)), Owner: gov}
				} else {
					m = &beacontypes.MsgRecordBeaconTimestamp{BeaconId: bc.BeaconId, Hash: g.hash(32), SubmitTime: 77, Owner: gov}
				}
			}
			e.Gov("gov names itself owner: "+descMsgs([]sdk.Msg{m}), m)
			c.Count("gov_as_owner_proposals", 1)
			continue
		}
		e.BeginBlock(time.Duration(r.Range(1, 7)) * time.Second)
		ntx := r.Range(1, 5)
		for i := 0; i < ntx; i++ {
			obs = e.Last
			nonOwner := 12
			if prop == "C09" {
				nonOwner = 30
			}
			tx := g.WrkBeaconTx(obs, nonOwner, 85)
			switch {
			case r.Chance(12): // authz-nested variant: the named owner grants, another account executes
				owner := tx.Spec.Signers[0]
				grantee := g.randAcct()
				if grantee.Addr.Equals(owner.Addr) {
					break
				}
				for _, gp := range g.EnsureGrants(owner, grantee, tx.Spec.Msgs) {
					e.Deliver(gp)
				}
				depth := 1 + r.Intn(2)
				wrapped := WrapExec(grantee, tx.Spec.Msgs, depth)
				tx = &TxPlan{Spec: lab.TxSpec{Msgs: []sdk.Msg{wrapped}, Signers: []lab.Acct{grantee}, Fee: tx.Spec.Fee, Gas: 900_000}, Desc: fmt.Sprintf("%s by a%d(for a%d) fee=%s", descMsgs([]sdk.Msg{wrapped}), g.idx(grantee), g.idx(owner), tx.Spec.Fee)}
			case r.Chance(8):
				tx = g.BankTx(obs, 10)
			}
			e.Deliver(tx)
		}
		e.EndBlock()
	}
	if e.Halted != "" {
		c.Count("halted_histories", 1)
	}
	prunes := 0
	bothPB := false
	for _, m := range []*RegistryModel{rm.Wrk, rm.Beacon} {
		for _, en := range m.Entries {
			prunes += en.Pruned
			if en.Pruned > 0 && en.Bought > 0 {
				bothPB = true
			}
		}
	}
	c.Count("prunes", int64(prunes))
	c.Count("point_queries", int64(rm.Evals))
	c.Count("txs", int64(e.NTx))
	switch prop {
	case "C07":
		if prunes > 0 {
			c.Nontrivial()
		}
	case "C08":
		if bothPB {
			c.Nontrivial()
		}
	case "C09":
		if len(owners) >= 3 && probes > 0 {
			c.Nontrivial()
		}
	}
	if c.Case < 3 {
		c.Sample(map[string]interface{}{"options": fmt.Sprintf("wrk=%v beacon=%v startIDs=%d/%d", o.Wrk, o.Beacon, o.WrkStartID, o.BeaconStartID), "trace_tail": e.TraceTail(25)})
	}
}

func firstN(s string, n int) string {
	if len(s) > n {
		return s[:n]
	}
	return s
}

func sizeClass(n, limit int) int {
	switch {
	case n == 0:
		return 0
	case n < limit:
		return 1
	case n == limit:
		return 2
	}
	return 3
}

func purchaseClass(limit, n, max uint64) string {
	left := uint64(0)
	if max > limit {
		left = max - limit
	}
	switch {
	case n == 0:
		return "zero"
	case n >= 1<<63:
		return "huge"
	case n < left:
		return "below-max"
	case n == left:
		return "exact-to-max"
	}
	return "over-max"
}

func findWrk(o *lab.Obs, id uint64) *wrkchaintypes.WrkChain {
	for i := range o.Wrk {
		if o.Wrk[i].WrkchainId == id {
			return &o.Wrk[i]
		}
	}
	return nil
}
func findBeacon(o *lab.Obs, id uint64) *beacontypes.Beacon {
	for i := range o.Beacons {
		if o.Beacons[i].BeaconId == id {
			return &o.Beacons[i]
		}
	}
	return nil
}

// regGovChange changes WRKChain or BEACON limits/fees through a real governance proposal.
func regGovChange(e *Env, r *fw.Rand, prop string) {
	obs := e.Last
	if obs == nil {
		obs = e.L.Observe(e.L.Ctx())
	}
	pick := func(def, max uint64) (uint64, uint64) {
		switch r.Intn(4) {
		case 0: // raise max
			return def, max + uint64(r.Range(1, 5))
		case 1: // lower max (possibly below existing limits), keep default <= max
			nm := uint64(r.Range(1, int(max)))
			if def > nm {
				def = nm
			}
			return def, nm
		case 2: // change default
			nd := uint64(r.Range(1, int(max)))
			return nd, max
		}
		return def, max
	}
	if r.Bool() {
		p := obs.WrkParams
		p.DefaultStorageLimit, p.MaxStorageLimit = pick(p.DefaultStorageLimit, p.MaxStorageLimit)
		if r.Chance(30) {
			p.FeeRecord = r.PickU64([]uint64{1, 5, 10, 333})
		}
		e.Gov(fmt.Sprintf("wrk limits default=%d max=%d", p.DefaultStorageLimit, p.MaxStorageLimit), &wrkchaintypes.MsgUpdateParams{Authority: lab.GovAuthority(), Params: p})
	} else {
		p := obs.BeaconParams
		p.DefaultStorageLimit, p.MaxStorageLimit = pick(p.DefaultStorageLimit, p.MaxStorageLimit)
		if r.Chance(30) {
			p.FeeRecord = r.PickU64([]uint64{1, 5, 10, 333})
		}
		e.Gov(fmt.Sprintf("beacon limits default=%d max=%d", p.DefaultStorageLimit, p.MaxStorageLimit), &beacontypes.MsgUpdateParams{Authority: lab.GovAuthority(), Params: p})
	}
	e.C.Count("gov_limit_changes", 1)
}

// regProbeBlock attempts a record and a purchase by EVERY account on EVERY registration (exact fee).
func regProbeBlock(e *Env, g *Gen) {
	e.BeginBlock(2 * time.Second)
	for _, a := range e.L.Accts {
		obs := e.Last
		for _, w := range obs.Wrk {
			var m sdk.Msg
			if e.R.Bool() {
				m = &wrkchaintypes.MsgRecordWrkChainBlock{WrkchainId: w.WrkchainId, Height: e.Last.Wrk[0].Lastblock + 1_000_000 + uint64(e.NTx), BlockHash: g.hash(64), Owner: g.spell(a, 20)}
				if wc := findWrk(e.Last, w.WrkchainId); wc != nil {
					m.(*wrkchaintypes.MsgRecordWrkChainBlock).Height = wc.Lastblock + 1
				}
			} else {
				m = &wrkchaintypes.MsgPurchaseWrkChainStateStorage{WrkchainId: w.WrkchainId, Number: 1, Owner: g.spell(a, 20)}
			}
			e.Deliver(g.plan(a, g.moduleFee(e.Last, []sdk.Msg{m}, 100), m))
		}
		for _, b := range obs.Beacons {
			var m sdk.Msg
			if e.R.Bool() {
				m = g.BeaconRecordMsg(b.BeaconId, a)
			} else {
				m = &beacontypes.MsgPurchaseBeaconStateStorage{BeaconId: b.BeaconId, Number: 1, Owner: g.spell(a, 20)}
			}
			e.Deliver(g.plan(a, g.moduleFee(e.Last, []sdk.Msg{m}, 100), m))
		}
	}
	e.EndBlock()
	_ = strings.Join
}
