package props

import (
	"fmt"

	dbm "github.com/cometbft/cometbft-db"
	abci "github.com/cometbft/cometbft/abci/types"
	servertypes "github.com/cosmos/cosmos-sdk/server/types"

	"verifharness/lab"
)

// Reimport replaces the chain under test, at a block boundary, by a FRESH application initialised
// from the genesis document the current one exports (a chain upgrade by export/import): the
// history then continues on the imported chain with the same monitors and reference models, so
// whatever an import gets wrong (a counter, a queue, an index) shows through the running
// property's own rules - an identifier handed out twice, a non-owner accepted, books that no
// longer add up. Failures of the export/import itself belong to C15 and are only counted here.
// Skipped (counted) when coins sit in the gov module account (x/gov's InitGenesis refuses a
// balance that differs from the recorded deposits - upstream) or no validator is bonded.
func (e *Env) Reimport() bool {
	A := e.L
	if e.Halted != "" || A.InBlock {
		return false
	}
	ctx := A.QueryCtx()
	if !A.App.BankKeeper.GetAllBalances(ctx, lab.ModAddr("gov")).IsZero() || len(A.App.StakingKeeper.GetBondedValidatorsByPower(ctx)) == 0 {
		e.C.Count("reimports_skipped", 1)
		return false
	}
	var ex servertypes.ExportedApp
	var err error
	if p := safeCall(func() { ex, err = A.App.ExportAppStateAndValidators(false, nil, nil) }); p != nil || err != nil {
		e.C.Count("reimports_failed", 1)
		e.tracef("re-import: export failed: %v %v", p, err)
		return false
	}
	ob := A.Opts
	e.nImports++
	ob.Home = fmt.Sprintf("%s/home-import-%d", e.C.Scratch, e.nImports)
	dbB := dbm.NewMemDB()
	appB := lab.NewApp(dbB, ob)
	initH := ex.Height
	if initH == 0 {
		initH = 1
	}
	if p := safeCall(func() {
		appB.InitChain(abci.RequestInitChain{ChainId: lab.ChainID, Time: A.Time, ConsensusParams: ex.ConsensusParams, Validators: nil, AppStateBytes: ex.AppState, InitialHeight: initH})
		appB.Commit()
	}); p != nil {
		e.C.Count("reimports_failed", 1)
		e.tracef("re-import: InitChain failed: %s", firstN(fmt.Sprint(p), 200))
		return false
	}
	B := lab.Attach(appB, dbB, ob, appB.LastBlockHeight(), A.Time)
	B.OnReadPanic = A.OnReadPanic
	e.L = B
	e.Last = B.Observe(B.QueryCtx())
	e.LastQ = nil
	e.C.Count("reimports", 1)
	e.C.Distinct("history-continued-on-imported-chain")
	e.tracef("h=%d RE-IMPORT: the history continues on a fresh chain initialised from the export", B.Height)
	return true
}
