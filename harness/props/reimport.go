package props

import (
	"encoding/json"
	"fmt"

	dbm "github.com/cometbft/cometbft-db"
	abci "github.com/cometbft/cometbft/abci/types"
	servertypes "github.com/cosmos/cosmos-sdk/server/types"

	"verifharness/lab"
)

// Reimport replaces the chain under test, at a block boundary, by a FRESH application initialised
// from the genesis document the current one exports (a chain upgrade by export/import): the
// history then continues on the imported chain with the same monitors and reference models, so
// whatever an import gets wrong (a counter, a queue, an index) shows through the running
// property's own rules - an identifier handed out twice, a non-owner accepted, books that no
// longer add up. Failures of the export/import itself belong to C15 and are only counted here.
// Skipped (counted) when coins sit in the gov module account (x/gov's InitGenesis refuses a
// balance that differs from the recorded deposits - upstream) or no validator is bonded.
func (e *Env) Reimport() bool {
	A := e.L
	if e.Halted != "" || A.InBlock {
		return false
	}
	ctx := A.QueryCtx()
	if !A.App.BankKeeper.GetAllBalances(ctx, lab.ModAddr("gov")).IsZero() || len(A.App.StakingKeeper.GetBondedValidatorsByPower(ctx)) == 0 {
		e.C.Count("reimports_skipped", 1)
		return false
	}
	var ex servertypes.ExportedApp
	var err error
	if p := safeCall(func() { ex, err = A.App.ExportAppStateAndValidators(false, nil, nil) }); p != nil || err != nil {
		e.C.Count("reimports_failed", 1)
		e.tracef("re-import: export failed: %v %v", p, err)
		return false
	}
	ob := A.Opts
	e.nImports++
	if e.nImports%2 == 1 {
		// a genesis document promises no particular order of its registration lists: every other
		// import lists the registered WRKChains and BEACONs in reverse identifier order
		if st, n := reverseRegistrations(ex.AppState); n > 0 {
			ex.AppState = st
			e.C.Count("reimports_reordered", 1)
		}
	}
	ob.Home = fmt.Sprintf("%s/home-import-%d", e.C.Scratch, e.nImports)
	dbB := dbm.NewMemDB()
	appB := lab.NewApp(dbB, ob)
	initH := ex.Height
	if initH == 0 {
		initH = 1
	}
	if p := safeCall(func() {
		appB.InitChain(abci.RequestInitChain{ChainId: lab.ChainID, Time: A.Time, ConsensusParams: ex.ConsensusParams, Validators: nil, AppStateBytes: ex.AppState, InitialHeight: initH})
		appB.Commit()
	}); p != nil {
		e.C.Count("reimports_failed", 1)
		e.tracef("re-import: InitChain failed: %s", firstN(fmt.Sprint(p), 200))
		return false
	}
	B := lab.Attach(appB, dbB, ob, appB.LastBlockHeight(), A.Time)
	B.OnReadPanic = A.OnReadPanic
	e.L = B
	e.Last = B.Observe(B.QueryCtx())
	e.LastQ = nil
	e.C.Count("reimports", 1)
	e.C.Distinct("history-continued-on-imported-chain")
	e.tracef("h=%d RE-IMPORT: the history continues on a fresh chain initialised from the export", B.Height)
	return true
}

// reverseRegistrations reverses registered_wrkchains / registered_beacons of an exported genesis
// document (nothing else is touched); n is the number of lists with at least two entries.
func reverseRegistrations(appState json.RawMessage) (json.RawMessage, int) {
	var gs map[string]json.RawMessage
	if json.Unmarshal(appState, &gs) != nil {
		return appState, 0
	}
	n := 0
	for mod, field := range map[string]string{"wrkchain": "registered_wrkchains", "beacon": "registered_beacons"} {
		var mg map[string]json.RawMessage
		if json.Unmarshal(gs[mod], &mg) != nil {
			continue
		}
		var list []json.RawMessage
		if json.Unmarshal(mg[field], &list) != nil || len(list) < 2 {
			continue
		}
		for i, j := 0, len(list)-1; i < j; i, j = i+1, j-1 {
			list[i], list[j] = list[j], list[i]
		}
		mg[field], _ = json.Marshal(list)
		gs[mod], _ = json.Marshal(mg)
		n++
	}
	if n == 0 {
		return appState, 0
	}
	out, err := json.Marshal(gs)
	if err != nil {
		return appState, 0
	}
	return out, n
}
