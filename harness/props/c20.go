package props

import (
	"bytes"
	"fmt"
	dbm "github.com/cometbft/cometbft-db"
	"sort"
	"strings"
	"sync"
	"sync/atomic"
	"time"

	abci "github.com/cometbft/cometbft/abci/types"
	sdk "github.com/cosmos/cosmos-sdk/types"
	"github.com/cosmos/cosmos-sdk/types/query"

	"verifharness/fw"
	"verifharness/lab"

	beacontypes "github.com/unification-com/mainchain/x/beacon/types"
	enttypes "github.com/unification-com/mainchain/x/enterprise/types"
	streamtypes "github.com/unification-com/mainchain/x/stream/types"
	wrkchaintypes "github.com/unification-com/mainchain/x/wrkchain/types"
)

// C20: list queries are complete, duplicate-free, consistent with point queries; queries never
// modify state.

func init() {
	fw.Register(&fw.Property{
		ID: "C20", Level: "exploration",
		Rule: "each case: a mixed history builds a state (orders of several purchasers in every status, whitelist, WRKChains/BEACONs of several owners incl. equal monikers, streams over many pairs); then, on the committed query context, every list query of the four modules is walked for every filter value (status x purchaser incl. upper-case spelling, owner x moniker, sender, receiver), every page limit 1..n+1, key-based, offset-based and reverse continuation, with and without count_total. The concatenated pages must equal the set of stored items matching the filter (expected set built from POINT queries over all ids/pairs ever issued), each item byte-equal to its point query, totals equal the set size; the app hash and the digest of all 21 stores are unchanged by the walks. Race tier: a chain serving continuous concurrent list/point queries through app.Query (ABCI boundary) while blocks execute must produce the same per-height app hashes as its query-free twin, each concurrent response must equal the sequential reference for the height it reports, and the race detector must attribute no race to mainchain code. distinct = (query, filter class, limit class, continuation mode)",
		Cases: func(tier string) int {
			if tier == "thorough" {
				return 2000
			}
			return 48
		},
		RaceCases: func(tier string) int {
			if tier == "thorough" {
				return 48
			}
			return 6
		},
		Run:         runC20,
		Need:        []string{"page_walks", "items_compared"},
		Assumptions: []string{"the legacy (non-gRPC) querier and REST gateways are not exercised", "filters are exact-match as implemented by the statement's 'matches the filter' (purchaser/status filters are case-insensitive in the query server)"},
	})
}

type listItem struct {
	id  string // identity of the item
	val string // rendered content
}

type pageFetch func(pr *query.PageRequest) (items []listItem, next []byte, total uint64, err error)

// walkPages walks a list query and returns the concatenation.
func walkPages(fetch pageFetch, limit uint64, mode string, countTotal bool, maxPages int) (all []listItem, total uint64, pages int, err error) {
	var key []byte
	off := uint64(0)
	for pages < maxPages {
		pr := &query.PageRequest{Limit: limit, CountTotal: countTotal, Reverse: mode == "reverse"}
		if mode == "offset" {
			pr.Offset = off
		} else {
			pr.Key = key
		}
		items, next, tot, e := fetch(pr)
		if e != nil {
			return all, total, pages, e
		}
		pages++
		if countTotal && (mode == "offset" || pages == 1) {
			total = tot
		}
		all = append(all, items...)
		if mode == "offset" {
			step := limit
			if step == 0 { // "no limit given": the node serves pages of query.DefaultLimit
				step = query.DefaultLimit
			}
			off += step
			if len(items) == 0 || uint64(len(items)) < step {
				break
			}
		} else {
			if len(next) == 0 {
				break
			}
			key = next
		}
	}
	return
}

func runC20(c *fw.Ctx) {
	if c.Race {
		runC20Race(c)
		return
	}
	r := c.Rng
	e, g := c20BuildState(c, r.Range(25, 40))
	if e == nil {
		return
	}
	defer e.L.Cleanup()
	if c.Case%8 == 5 {
		c20Enlarge(c, e, g)
		if e.Halted != "" {
			c.Count("halted_histories", 1)
			return
		}
	}
	L := e.L
	hashBefore := append([]byte(nil), L.App.LastCommitID().Hash...)
	digBefore := L.SnapshotStores(L.QueryCtx(), lab.StoreNames).Digest()
	c20WalkAll(c, e, L.QueryCtx())
	hashAfter := L.App.LastCommitID().Hash
	digAfter := L.SnapshotStores(L.QueryCtx(), lab.StoreNames).Digest()
	if !bytes.Equal(hashBefore, hashAfter) || digBefore != digAfter {
		c.Violate("queries-modified-state", "committed", "app hash / store digest changed by queries: %x/%s -> %x/%s", hashBefore, digBefore, hashAfter, digAfter)
	}
	// and the chain goes on exactly as a twin that served no queries (in-memory state touched by queries)
	c.Nontrivial()
	if c.Case < 2 {
		c.Sample(map[string]interface{}{"orders": len(e.Last.POs), "wrkchains": len(e.Last.Wrk), "beacons": len(e.Last.Beacons), "streams": len(e.Last.Streams), "whitelist": len(e.Last.Whitelist)})
	}
}

func c20BuildState(c *fw.Ctx, blocks int) (*Env, *Gen) {
	r := c.Rng
	o := RandOptions(r)
	o.Ent.MinAccepts = 1
	for i := 1; i < o.NAccts; i++ {
		if r.Chance(60) {
			o.Whitelist = append(o.Whitelist, i)
		}
	}
	o.Whitelist = dedupInts(o.Whitelist)
	e := NewEnv(c, o)
	g := NewGen(e)
	w := defaultMix
	w.Ent, w.Reg, w.Stream, w.Bank, w.Staking = 40, 30, 25, 5, 0
	w.EntHostile, w.GovPct, w.VetoPct, w.LowGasPct, w.BadSeqPct = 5, 2, 0, 0, 0
	RunMixed(e, g, w, blocks)
	oddReceiverStreams(c, e, g, 60)
	// a quarter of the states are walked on a fresh chain initialised from an export of this one:
	// whatever the lists are built from must have come through the import (a later block follows,
	// with further traffic, so that imported and newly written entities sit side by side)
	if e.Halted == "" && r.Chance(25) {
		if e.Reimport() {
			RunMixed(e, g, w, 3)
		}
	}
	if e.Halted != "" {
		c.Count("halted_histories", 1)
		e.L.Cleanup()
		return nil, nil
	}
	return e, g
}

func limitClass(limit uint64, n int) string {
	switch {
	case limit == 1:
		return "1"
	case int(limit) < n:
		return "<n"
	case int(limit) == n:
		return "=n"
	}
	return ">n"
}

// checkList walks one list query in all modes/limits and compares with the expected set.
func checkList(c *fw.Ctx, name, filter string, expected []listItem, fetch pageFetch) {
	n := len(expected)
	want := map[string]string{}
	for _, it := range expected {
		want[it.id] = it.val
	}
	limits := []uint64{1, 2, 3, uint64(n), uint64(n) + 1}
	if n > 6 {
		limits = append(limits, uint64(n)-1, uint64(n/2))
	}
	if n > 100 { // around the SDK's default page size: 0 means "default limit" (100)
		limits = []uint64{7, 99, 100, 101, 150, uint64(n) - 1, uint64(n), uint64(n) + 1, 500, 0}
	}
	seenL := map[uint64]bool{}
	for _, limit := range limits {
		if (limit == 0 && n <= 100) || seenL[limit] {
			continue
		}
		seenL[limit] = true
		for _, mode := range []string{"key", "offset", "reverse"} {
			for _, ct := range []bool{false, true} {
				got, total, _, err := walkPages(fetch, limit, mode, ct, n+5)
				c.Count("page_walks", 1)
				c.Distinct(fmt.Sprintf("%s/%s/limit%s/%s/count=%v", name, filter, limitClass(limit, n), mode, ct))
				sig := name + "/" + mode
				if err != nil {
					c.Violate("list-query-error", sig, "%s [%s] limit %d %s: %v", name, filter, limit, mode, err)
					continue
				}
				seen := map[string]bool{}
				for _, it := range got {
					c.Count("items_compared", 1)
					if seen[it.id] {
						c.Violate("list-duplicate-item", sig, "%s [%s] limit %d %s count_total=%v: item %s returned more than once (got %v)", name, filter, limit, mode, ct, it.id, idsOf(got))
						break
					}
					seen[it.id] = true
					w, ok := want[it.id]
					if !ok {
						c.Violate("list-foreign-item", sig, "%s [%s] limit %d %s: item %s does not match the filter / is not stored", name, filter, limit, mode, it.id)
						break
					}
					if w != it.val {
						c.Violate("list-item-differs-from-point-query", sig, "%s [%s]: item %s listed as %s, point query gives %s", name, filter, it.id, firstN(it.val, 200), firstN(w, 200))
						break
					}
				}
				if len(seen) < n {
					var missing []string
					for id := range want {
						if !seen[id] {
							missing = append(missing, id)
						}
					}
					sort.Strings(missing)
					c.Violate("list-missing-item", sig, "%s [%s] limit %d %s count_total=%v: %d of %d matching items missing: %v (got %v)", name, filter, limit, mode, ct, len(missing), n, missing, idsOf(got))
				}
				if ct && total != uint64(n) {
					c.Violate("list-total-wrong", sig, "%s [%s] limit %d %s: pagination total %d, matching items %d", name, filter, limit, mode, total, n)
				}
				// ordering: ascending ids for key/offset walks
				if mode != "reverse" && name != "Streams" && name != "StreamsBySender" && name != "StreamsByReceiver" {
					if !sort.SliceIsSorted(got, func(i, j int) bool { return numID(got[i].id) < numID(got[j].id) }) {
						c.Violate("list-order", sig, "%s [%s] limit %d %s: items not in ascending id order: %v", name, filter, limit, mode, idsOf(got))
					}
				}
			}
		}
	}
}

func numID(s string) uint64 {
	var x uint64
	fmt.Sscan(s, &x)
	return x
}

func idsOf(xs []listItem) []string {
	var out []string
	for _, x := range xs {
		out = append(out, x.id)
	}
	return out
}

func nextKey(p *query.PageResponse) ([]byte, uint64) {
	if p == nil {
		return nil, 0
	}
	return p.NextKey, p.Total
}

// c20WalkAll performs every list walk against expected sets built from point queries.
func c20WalkAll(c *fw.Ctx, e *Env, ctx sdk.Context) {
	L := e.L
	g := sdk.WrapSDKContext(ctx)
	obs := L.Observe(ctx)
	// all queries go through the ABCI Query entry point (the services as the modules registered them,
	// served from the last committed state - which is what ctx is)
	conn := lab.ABCIConn{App: L.App}
	ek, wk, bk, sk := enttypes.NewQueryClient(conn), wrkchaintypes.NewQueryClient(conn), beacontypes.NewQueryClient(conn), streamtypes.NewQueryClient(conn)
	// ---- purchase orders: expected from point queries over every id ever issued
	var allPO []enttypes.EnterpriseUndPurchaseOrder
	firstPO := e.L.Opts.PoStartID
	for _, gp := range e.L.Opts.GenesisPOs { // orders the genesis document already holds
		if gp.Id < firstPO {
			firstPO = gp.Id
		}
	}
	for id := firstPO; id < obs.NextPO; id++ {
		res, err := ek.EnterpriseUndPurchaseOrder(g, &enttypes.QueryEnterpriseUndPurchaseOrderRequest{PurchaseOrderId: id})
		if err != nil {
			c.Violate("point-query-error", "PurchaseOrder", "order %d (issued) point query: %v", id, err)
			continue
		}
		allPO = append(allPO, res.PurchaseOrder)
	}
	purchasers := map[string]bool{}
	for _, po := range allPO {
		purchasers[po.Purchaser] = true
	}
	pfilters := []string{""}
	for p := range purchasers {
		pfilters = append(pfilters, p, strings.ToUpper(p))
	}
	sort.Strings(pfilters)
	if len(pfilters) > 7 {
		pfilters = pfilters[:7]
	}
	pfilters = append(pfilters, L.Accts[len(L.Accts)-1].Addr.String()) // possibly a purchaser without orders
	for _, st := range []enttypes.PurchaseOrderStatus{enttypes.StatusNil, enttypes.StatusRaised, enttypes.StatusAccepted, enttypes.StatusRejected, enttypes.StatusCompleted} {
		for _, pf := range pfilters {
			var exp []listItem
			for _, po := range allPO {
				if st != enttypes.StatusNil && po.Status != st {
					continue
				}
				if pf != "" && ownerHex(po.Purchaser) != ownerHex(pf) {
					continue
				}
				exp = append(exp, listItem{fmt.Sprint(po.Id), po.String()})
			}
			st, pf := st, pf
			fclass := fmt.Sprintf("status=%s/purchaser=%s", short(st), map[bool]string{true: "any", false: spelling(pf)}[pf == ""])
			checkList(c, "PurchaseOrders", fclass, exp, func(pr *query.PageRequest) ([]listItem, []byte, uint64, error) {
				res, err := ek.EnterpriseUndPurchaseOrders(g, &enttypes.QueryEnterpriseUndPurchaseOrdersRequest{Pagination: pr, Purchaser: pf, Status: st})
				if err != nil {
					return nil, nil, 0, err
				}
				var out []listItem
				for _, po := range res.PurchaseOrders {
					out = append(out, listItem{fmt.Sprint(po.Id), po.String()})
				}
				nk, tot := nextKey(res.Pagination)
				return out, nk, tot, nil
			})
		}
	}
	// ---- whitelist (unpaginated) vs point queries for every account
	wl, err := ek.Whitelist(g, &enttypes.QueryWhitelistRequest{})
	if err != nil {
		c.Violate("list-query-error", "Whitelist", "%v", err)
	} else {
		got := map[string]int{}
		for _, a := range wl.Addresses {
			got[ownerHex(a)]++
		}
		var cands []sdk.AccAddress
		for _, a := range L.Accts {
			cands = append(cands, a.Addr)
		}
		cands = append(cands, e.ExtraAddrs...)
		for _, w := range L.Opts.ExtraWhitelist { // whitelisted by the genesis document
			if a, err := sdk.AccAddressFromBech32(w); err == nil {
				cands = append(cands, a)
			}
		}
		known := 0
		for _, a := range cands {
			res, err := ek.Whitelisted(g, &enttypes.QueryWhitelistedRequest{Address: a.String()})
			c.Count("items_compared", 1)
			if err != nil {
				c.Violate("point-query-error", "Whitelisted", "%v", err)
				continue
			}
			n := got[ownerHex(a.String())]
			if (res.Whitelisted && n != 1) || (!res.Whitelisted && n != 0) {
				c.Violate("list-missing-item", "Whitelist", "address %s: Whitelisted=%v but listed %d times", a, res.Whitelisted, n)
			}
			if res.Whitelisted {
				known++
			}
		}
		if len(wl.Addresses) != known {
			c.Violate("list-foreign-item", "Whitelist", "the whitelist lists %d addresses, %d of the addresses ever whitelisted in this history answer Whitelisted=true", len(wl.Addresses), known)
		}
		c.Count("page_walks", 1)
	}
	// ---- WRKChains / BEACONs: owner x moniker
	var allW []wrkchaintypes.WrkChain
	for id := e.L.Opts.WrkStartID; id < obs.NextWrk; id++ {
		res, err := wk.WrkChain(g, &wrkchaintypes.QueryWrkChainRequest{WrkchainId: id})
		if err != nil {
			c.Violate("point-query-error", "WrkChain", "wrkchain %d (issued) point query: %v", id, err)
			continue
		}
		allW = append(allW, *res.Wrkchain)
	}
	ownersW, monW := []string{""}, []string{""}
	for _, w := range allW {
		ownersW = append(ownersW, w.Owner)
		monW = append(monW, w.Moniker)
	}
	ownersW, monW = capStr(uniqStr(ownersW), 4), monikerFilters(monW)
	for _, of := range ownersW {
		for _, mf := range monW {
			var exp []listItem
			for _, w := range allW {
				if (of == "" || w.Owner == of) && (mf == "" || w.Moniker == mf) {
					exp = append(exp, listItem{fmt.Sprint(w.WrkchainId), w.String()})
				}
			}
			of, mf := of, mf
			checkList(c, "WrkChains", fmt.Sprintf("owner=%v/moniker=%v", of != "", mf != ""), exp, func(pr *query.PageRequest) ([]listItem, []byte, uint64, error) {
				res, err := wk.WrkChainsFiltered(g, &wrkchaintypes.QueryWrkChainsFilteredRequest{Moniker: mf, Owner: of, Pagination: pr})
				if err != nil {
					return nil, nil, 0, err
				}
				var out []listItem
				for _, w := range res.Wrkchains {
					out = append(out, listItem{fmt.Sprint(w.WrkchainId), w.String()})
				}
				nk, tot := nextKey(res.Pagination)
				return out, nk, tot, nil
			})
		}
	}
	var allB []beacontypes.Beacon
	for id := e.L.Opts.BeaconStartID; id < obs.NextBeacon; id++ {
		res, err := bk.Beacon(g, &beacontypes.QueryBeaconRequest{BeaconId: id})
		if err != nil {
			c.Violate("point-query-error", "Beacon", "beacon %d (issued) point query: %v", id, err)
			continue
		}
		allB = append(allB, *res.Beacon)
	}
	ownersB, monB := []string{""}, []string{""}
	for _, b := range allB {
		ownersB = append(ownersB, b.Owner)
		monB = append(monB, b.Moniker)
	}
	ownersB, monB = capStr(uniqStr(ownersB), 4), monikerFilters(monB)
	for _, of := range ownersB {
		for _, mf := range monB {
			var exp []listItem
			for _, b := range allB {
				if (of == "" || b.Owner == of) && (mf == "" || b.Moniker == mf) {
					exp = append(exp, listItem{fmt.Sprint(b.BeaconId), b.String()})
				}
			}
			of, mf := of, mf
			checkList(c, "Beacons", fmt.Sprintf("owner=%v/moniker=%v", of != "", mf != ""), exp, func(pr *query.PageRequest) ([]listItem, []byte, uint64, error) {
				res, err := bk.BeaconsFiltered(g, &beacontypes.QueryBeaconsFilteredRequest{Moniker: mf, Owner: of, Pagination: pr})
				if err != nil {
					return nil, nil, 0, err
				}
				var out []listItem
				for _, b := range res.Beacons {
					out = append(out, listItem{fmt.Sprint(b.BeaconId), b.String()})
				}
				nk, tot := nextKey(res.Pagination)
				return out, nk, tot, nil
			})
		}
	}
	// ---- streams: expected from point queries over every (sender, receiver) pair of accounts
	var allS []listItem
	bySender, byRecv := map[string][]listItem{}, map[string][]listItem{}
	var parties []sdk.AccAddress
	for _, a := range L.Accts {
		parties = append(parties, a.Addr)
	}
	parties = append(parties, e.ExtraAddrs...)
	for _, s := range L.Accts {
		for _, rc := range parties {
			res, err := sk.StreamByReceiverSender(g, &streamtypes.QueryStreamByReceiverSenderRequest{ReceiverAddr: rc.String(), SenderAddr: s.Addr.String()})
			if err != nil {
				continue
			}
			it := listItem{rc.String() + "<" + s.Addr.String(), res.Stream.Stream.String()}
			allS = append(allS, it)
			bySender[s.Addr.String()] = append(bySender[s.Addr.String()], it)
			byRecv[rc.String()] = append(byRecv[rc.String()], it)
		}
	}
	render := func(rs []*streamtypes.StreamResult) []listItem {
		var out []listItem
		for _, s := range rs {
			out = append(out, listItem{s.Receiver + "<" + s.Sender, s.Stream.String()})
		}
		return out
	}
	checkList(c, "Streams", "all", allS, func(pr *query.PageRequest) ([]listItem, []byte, uint64, error) {
		res, err := sk.Streams(g, &streamtypes.QueryStreamsRequest{Pagination: pr})
		if err != nil {
			return nil, nil, 0, err
		}
		nk, tot := nextKey(res.Pagination)
		return render(res.Streams), nk, tot, nil
	})
	for i, a := range L.Accts {
		if i > 3 {
			break
		}
		addr := a.Addr.String()
		checkList(c, "StreamsBySender", "sender", bySender[addr], func(pr *query.PageRequest) ([]listItem, []byte, uint64, error) {
			res, err := sk.AllStreamsForSender(g, &streamtypes.QueryAllStreamsForSenderRequest{SenderAddr: addr, Pagination: pr})
			if err != nil {
				return nil, nil, 0, err
			}
			nk, tot := nextKey(res.Pagination)
			return render(res.Streams), nk, tot, nil
		})
		checkList(c, "StreamsByReceiver", "receiver", byRecv[addr], func(pr *query.PageRequest) ([]listItem, []byte, uint64, error) {
			res, err := sk.AllStreamsForReceiver(g, &streamtypes.QueryAllStreamsForReceiverRequest{ReceiverAddr: addr, Pagination: pr})
			if err != nil {
				return nil, nil, 0, err
			}
			nk, tot := nextKey(res.Pagination)
			return render(res.Streams), nk, tot, nil
		})
	}
}

// monikerFilters: "", up to three stored monikers, every stored spelling of "acme", and the
// upper/lower-case variants of one stored moniker (which match only what is stored exactly so).
func monikerFilters(stored []string) []string {
	u := uniqStr(stored)
	out := capStr(u, 4)
	for _, m := range u {
		if strings.EqualFold(m, "acme") {
			out = append(out, m)
		}
	}
	if len(u) > 1 {
		out = append(out, strings.ToUpper(u[1]), strings.ToLower(u[1]))
	}
	return uniqStr(out)
}

func uniqStr(xs []string) []string {
	m := map[string]bool{}
	var out []string
	for _, x := range xs {
		if !m[x] {
			m[x] = true
			out = append(out, x)
		}
	}
	return out
}
func capStr(xs []string, n int) []string {
	if len(xs) > n {
		return xs[:n]
	}
	return xs
}

// ---------------------------------------------------------------------------------------------
// race tier: concurrent serving through the ABCI Query boundary

type c20Query struct {
	path string
	data []byte
}

func c20Queries(L *lab.Lab) []c20Query {
	mk := func(path string, m interface{ Marshal() ([]byte, error) }) c20Query {
		bz, _ := m.Marshal()
		return c20Query{path, bz}
	}
	pr := &query.PageRequest{Limit: 3, CountTotal: true}
	a1 := L.Accts[1].Addr.String()
	a2 := L.Accts[2].Addr.String()
	return []c20Query{
		mk("/mainchain.enterprise.v1.Query/EnterpriseUndPurchaseOrders", &enttypes.QueryEnterpriseUndPurchaseOrdersRequest{Pagination: pr}),
		mk("/mainchain.enterprise.v1.Query/EnterpriseUndPurchaseOrders", &enttypes.QueryEnterpriseUndPurchaseOrdersRequest{Pagination: &query.PageRequest{Limit: 100}, Status: enttypes.StatusCompleted}),
		mk("/mainchain.enterprise.v1.Query/Whitelist", &enttypes.QueryWhitelistRequest{}),
		mk("/mainchain.enterprise.v1.Query/TotalSupply", &enttypes.QueryTotalSupplyRequest{}),
		mk("/mainchain.wrkchain.v1.Query/WrkChainsFiltered", &wrkchaintypes.QueryWrkChainsFilteredRequest{Pagination: &query.PageRequest{Limit: 100}}),
		mk("/mainchain.beacon.v1.Query/BeaconsFiltered", &beacontypes.QueryBeaconsFilteredRequest{Pagination: pr, Owner: a1}),
		mk("/mainchain.stream.v1.Query/Streams", &streamtypes.QueryStreamsRequest{Pagination: &query.PageRequest{Limit: 100}}),
		mk("/mainchain.stream.v1.Query/AllStreamsForSender", &streamtypes.QueryAllStreamsForSenderRequest{SenderAddr: a1, Pagination: &query.PageRequest{Limit: 100}}),
		mk("/mainchain.enterprise.v1.Query/EnterpriseUndPurchaseOrder", &enttypes.QueryEnterpriseUndPurchaseOrderRequest{PurchaseOrderId: L.Opts.PoStartID}),
		// every other endpoint of the four query services (point queries included): handlers may
		// share process memory, and only calls that really overlap expose that to the race detector
		mk("/mainchain.enterprise.v1.Query/Params", &enttypes.QueryParamsRequest{}),
		mk("/mainchain.enterprise.v1.Query/LockedUndByAddress", &enttypes.QueryLockedUndByAddressRequest{Owner: a1}),
		mk("/mainchain.enterprise.v1.Query/LockedUndByAddress", &enttypes.QueryLockedUndByAddressRequest{Owner: a2}),
		mk("/mainchain.enterprise.v1.Query/TotalLocked", &enttypes.QueryTotalLockedRequest{}),
		mk("/mainchain.enterprise.v1.Query/TotalUnlocked", &enttypes.QueryTotalUnlockedRequest{}),
		mk("/mainchain.enterprise.v1.Query/EnterpriseSupply", &enttypes.QueryEnterpriseSupplyRequest{}),
		mk("/mainchain.enterprise.v1.Query/SupplyOf", &enttypes.QuerySupplyOfRequest{Denom: lab.Denom}),
		mk("/mainchain.enterprise.v1.Query/SupplyOfOverwrite", &enttypes.QuerySupplyOfRequest{Denom: lab.Denom2}),
		mk("/mainchain.enterprise.v1.Query/TotalSupplyOverwrite", &enttypes.QueryTotalSupplyRequest{Pagination: &query.PageRequest{Limit: 2, Reverse: true}}),
		mk("/mainchain.enterprise.v1.Query/Whitelisted", &enttypes.QueryWhitelistedRequest{Address: a1}),
		mk("/mainchain.enterprise.v1.Query/EnterpriseAccount", &enttypes.QueryEnterpriseAccountRequest{}),
		mk("/mainchain.enterprise.v1.Query/TotalSpentEFUND", &enttypes.QueryTotalSpentEFUNDRequest{}),
		mk("/mainchain.enterprise.v1.Query/SpentEFUNDByAddress", &enttypes.QuerySpentEFUNDByAddressRequest{Address: a1}),
		mk("/mainchain.enterprise.v1.Query/EnterpriseUndPurchaseOrders", &enttypes.QueryEnterpriseUndPurchaseOrdersRequest{Pagination: &query.PageRequest{Limit: 2, Offset: 1, CountTotal: true}, Purchaser: a1}),
		mk("/mainchain.wrkchain.v1.Query/Params", &wrkchaintypes.QueryParamsRequest{}),
		mk("/mainchain.wrkchain.v1.Query/WrkChain", &wrkchaintypes.QueryWrkChainRequest{WrkchainId: L.Opts.WrkStartID}),
		mk("/mainchain.wrkchain.v1.Query/WrkChain", &wrkchaintypes.QueryWrkChainRequest{WrkchainId: L.Opts.WrkStartID + 1}),
		mk("/mainchain.wrkchain.v1.Query/WrkChainBlock", &wrkchaintypes.QueryWrkChainBlockRequest{WrkchainId: L.Opts.WrkStartID, Height: 1}),
		mk("/mainchain.wrkchain.v1.Query/WrkChainBlock", &wrkchaintypes.QueryWrkChainBlockRequest{WrkchainId: L.Opts.WrkStartID, Height: 2}),
		mk("/mainchain.wrkchain.v1.Query/WrkChainStorage", &wrkchaintypes.QueryWrkChainStorageRequest{WrkchainId: L.Opts.WrkStartID}),
		mk("/mainchain.wrkchain.v1.Query/WrkChainsFiltered", &wrkchaintypes.QueryWrkChainsFilteredRequest{Pagination: &query.PageRequest{Limit: 2, Reverse: true}, Owner: a2}),
		mk("/mainchain.beacon.v1.Query/Params", &beacontypes.QueryParamsRequest{}),
		mk("/mainchain.beacon.v1.Query/Beacon", &beacontypes.QueryBeaconRequest{BeaconId: L.Opts.BeaconStartID}),
		mk("/mainchain.beacon.v1.Query/Beacon", &beacontypes.QueryBeaconRequest{BeaconId: L.Opts.BeaconStartID + 1}),
		mk("/mainchain.beacon.v1.Query/BeaconTimestamp", &beacontypes.QueryBeaconTimestampRequest{BeaconId: L.Opts.BeaconStartID, TimestampId: 1}),
		mk("/mainchain.beacon.v1.Query/BeaconTimestamp", &beacontypes.QueryBeaconTimestampRequest{BeaconId: L.Opts.BeaconStartID, TimestampId: 2}),
		mk("/mainchain.beacon.v1.Query/BeaconStorage", &beacontypes.QueryBeaconStorageRequest{BeaconId: L.Opts.BeaconStartID}),
		mk("/mainchain.beacon.v1.Query/BeaconsFiltered", &beacontypes.QueryBeaconsFilteredRequest{Pagination: &query.PageRequest{Limit: 100}}),
		mk("/mainchain.stream.v1.Query/Params", &streamtypes.QueryParamsRequest{}),
		mk("/mainchain.stream.v1.Query/CalculateFlowRate", &streamtypes.QueryCalculateFlowRateRequest{Coin: "1000000nund", Period: streamtypes.StreamPeriodDay, Duration: 3}),
		mk("/mainchain.stream.v1.Query/AllStreamsForReceiver", &streamtypes.QueryAllStreamsForReceiverRequest{ReceiverAddr: a2, Pagination: &query.PageRequest{Limit: 100}}),
		mk("/mainchain.stream.v1.Query/AllStreamsForReceiver", &streamtypes.QueryAllStreamsForReceiverRequest{ReceiverAddr: a1, Pagination: &query.PageRequest{Limit: 1, CountTotal: true}}),
		mk("/mainchain.stream.v1.Query/StreamByReceiverSender", &streamtypes.QueryStreamByReceiverSenderRequest{ReceiverAddr: a2, SenderAddr: a1}),
		mk("/mainchain.stream.v1.Query/StreamByReceiverSender", &streamtypes.QueryStreamByReceiverSenderRequest{ReceiverAddr: a1, SenderAddr: a2}),
		mk("/mainchain.stream.v1.Query/StreamReceiverSenderCurrentFlow", &streamtypes.QueryStreamReceiverSenderCurrentFlowRequest{ReceiverAddr: a2, SenderAddr: a1}),
	}
}

func runC20Race(c *fw.Ctx) {
	r := c.Rng
	// history recorded on a query-free twin
	o := RandOptions(r)
	o.Ent.MinAccepts = 1
	o.Whitelist = dedupInts(append(o.Whitelist, 1, 2, 3))
	twin := NewEnv(c, o)
	defer twin.L.Cleanup()
	twin.Record = true
	g := NewGen(twin)
	w := defaultMix
	w.Ent, w.Reg, w.Stream, w.Bank, w.Staking = 40, 30, 25, 5, 0
	w.GovPct, w.VetoPct = 2, 0
	var twinHashes [][]byte
	hm := &Monitor{Name: "hash", AfterBlock: func(e *Env, o *lab.Obs) {
		twinHashes = append(twinHashes, append([]byte(nil), e.L.App.LastCommitID().Hash...))
	}}
	twin.Monitors = append(twin.Monitors, hm)
	RunMixed(twin, g, w, r.Range(30, 45))
	if twin.Halted != "" {
		return
	}
	// the serving replica replays the same blocks while goroutines query it
	o2 := o
	o2.Home = c.Scratch + "/home2"
	srv := lab.New(dbmNewMem(), o2)
	defer srv.Cleanup()
	qs := c20Queries(srv)
	var stop int32
	var wg sync.WaitGroup
	type rec struct {
		q      int
		height int64
		value  []byte
		lo, hi int64
		s0, s1 int64
		t0, t1 int64
		client int
		code   uint32
	}
	var mu sync.Mutex
	var recs []rec
	clock := time.Now() // one monotonic clock for the recorded history (ordering only, never a verdict by itself)
	var hops []fw.HeightOp
	var committed int64 = srv.App.LastBlockHeight()
	// commitSeq is odd while a Commit is in flight: only responses whose whole call lay outside any
	// Commit window are compared with the sequential reference (the committed stores are only
	// written during Commit; the SDK/iavl do not isolate a "latest height" read from a concurrent
	// Commit - an upstream limitation, see DESIGN.md section 6)
	var commitSeq int64
	for w := 0; w < 4; w++ {
		wg.Add(1)
		go func(w int) {
			defer wg.Done()
			i := w
			for atomic.LoadInt32(&stop) == 0 {
				q := qs[i%len(qs)]
				i++
				s0 := atomic.LoadInt64(&commitSeq)
				lo := atomic.LoadInt64(&committed)
				t0 := time.Since(clock).Nanoseconds()
				res := srv.App.Query(abci.RequestQuery{Path: q.path, Data: q.data})
				t1 := time.Since(clock).Nanoseconds()
				hi := atomic.LoadInt64(&committed)
				s1 := atomic.LoadInt64(&commitSeq)
				mu.Lock()
				if len(recs) < 200000 {
					recs = append(recs, rec{q: i - 1, height: res.Height, value: res.Value, lo: lo, hi: hi, s0: s0, s1: s1, t0: t0, t1: t1, client: w, code: res.Code})
				}
				mu.Unlock()
			}
		}(w)
	}
	// sequential reference per height is taken by the driver goroutine right after each commit
	ref := map[int64][][]byte{}
	takeRef := func() {
		h := srv.App.LastBlockHeight()
		var vals [][]byte
		for _, q := range qs {
			res := srv.App.Query(abci.RequestQuery{Path: q.path, Data: q.data, Height: h})
			vals = append(vals, res.Value)
		}
		ref[h] = vals
	}
	takeRef()
	var srvHashes [][]byte
	for _, b := range twin.Blocks {
		srv.Height++
		srv.Time = time.Unix(0, b.TimeNs).UTC()
		srv.InBlock = true
		srv.App.BeginBlock(abci.RequestBeginBlock{Header: srv.Header()})
		for _, tx := range b.Txs {
			srv.Deliver(tx)
		}
		srv.App.EndBlock(abci.RequestEndBlock{Height: srv.Height})
		srv.InBlock = false
		atomic.AddInt64(&commitSeq, 1)
		ct0 := time.Since(clock).Nanoseconds()
		hsh := srv.App.Commit().Data
		ct1 := time.Since(clock).Nanoseconds()
		hops = append(hops, fw.HeightOp{Client: 99, Write: true, Height: srv.App.LastBlockHeight(), Call: ct0, Return: ct1})
		atomic.StoreInt64(&committed, srv.App.LastBlockHeight())
		atomic.AddInt64(&commitSeq, 1)
		srvHashes = append(srvHashes, hsh)
		takeRef()
	}
	atomic.StoreInt32(&stop, 1)
	wg.Wait()
	c.Count("concurrent_queries", int64(len(recs)))
	c.Count("page_walks", int64(len(recs)))
	c.Count("blocks_served", int64(len(twin.Blocks)))
	// per-height hashes equal the query-free twin's
	for i := range srvHashes {
		if i < len(twinHashes) && !bytes.Equal(srvHashes[i], twinHashes[i]) {
			c.Violate("queries-modified-state", "concurrent", "block %d: app hash of the chain serving concurrent queries %x differs from its query-free twin %x", i, srvHashes[i], twinHashes[i])
			break
		}
	}
	// each response equals the sequential reference for the height it reports, inside its interval
	hs := map[int64]bool{}
	for _, rc := range recs {
		if rc.code != 0 {
			continue
		}
		c.Count("items_compared", 1)
		hs[rc.height] = true
		if rc.height < rc.lo || rc.height > rc.hi+1 {
			c.Violate("served-height-outside-interval", "concurrent", "query %d served at height %d, committed height was %d at call and %d at return", rc.q%len(qs), rc.height, rc.lo, rc.hi)
			break
		}
		if rc.s0 != rc.s1 || rc.s0%2 == 1 {
			c.Count("responses_overlapping_a_commit", 1)
			continue
		}
		c.Count("responses_compared_with_reference", 1)
		if want, ok := ref[rc.height]; ok && !bytes.Equal(want[rc.q%len(qs)], rc.value) {
			c.Violate("concurrent-response-differs", qs[rc.q%len(qs)].path, "query %s served at height %d differs from the sequential reference for that height (%d vs %d bytes)", qs[rc.q%len(qs)].path, rc.height, len(rc.value), len(want[rc.q%len(qs)]))
			break
		}
	}
	// second opinion (porcupine): the heights reported by the concurrent queries and the commits form
	// a linearizable history of a "committed height" register
	for i, rc := range recs {
		if rc.code == 0 && i%7 == 0 && len(hops) < 4000 {
			hops = append(hops, fw.HeightOp{Client: rc.client, Height: rc.height, Call: rc.t0, Return: rc.t1})
		}
	}
	switch fw.CheckHeightRegister(hops, 40*time.Second) {
	case "ok":
		c.Count("porcupine_ok", 1)
	case "illegal":
		c.Violate("served-heights-not-linearizable", "porcupine", "the history of %d commits/queries (height served per query) is not linearizable as a register", len(hops))
	default:
		c.Count("porcupine_timeout_inconclusive", 1)
	}
	c.Count("porcupine_ops", int64(len(hops)))
	c.Distinct(fmt.Sprintf("race/heights-served=%d", len(hs)/10*10))
	c.Distinct("race/concurrent-serving")
	c.Nontrivial()
}

func dbmNewMem() dbm.DB { return dbm.NewMemDB() }

// oddReceiverStreams: streams towards receivers whose addresses are not 20 bytes long (module-derived
// accounts are 32 bytes; anything from 1 to 255 bytes is a legal address): listings - and exports -
// must report them with exactly their parties.
func oddReceiverStreams(c *fw.Ctx, e *Env, g *Gen, pct int) {
	if e.Halted != "" {
		return
	}
	r := e.R
	var txs []*TxPlan
	for i, n := range []int{1, 19, 21, 32, 32, 64, 255} {
		if !r.Chance(pct) {
			continue
		}
		raw := make([]byte, n)
		for j := range raw {
			raw[j] = byte(r.Intn(256))
		}
		if n == 32 && i%2 == 0 { // ends like a lab account's address
			copy(raw[12:], e.L.Accts[2].Addr)
		}
		rc := sdk.AccAddress(raw)
		e.ExtraAddrs = append(e.ExtraAddrs, rc)
		s := e.L.Accts[1+i%(len(e.L.Accts)-1)]
		txs = append(txs, g.plan(s, nil, &streamtypes.MsgCreateStream{Receiver: rc.String(), Sender: s.Addr.String(), Deposit: sdk.NewInt64Coin(lab.Denom2, int64(700+i)), FlowRate: 10}))
	}
	if len(txs) > 0 {
		e.Block(time.Second, txs...)
		c.Count("streams_to_odd_length_receivers", int64(len(txs)))
	}
}
