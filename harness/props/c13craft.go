package props

import (
	"fmt"
	"time"

	banktypes "github.com/cosmos/cosmos-sdk/x/bank/types"

	sdk "github.com/cosmos/cosmos-sdk/types"

	beacontypes "github.com/unification-com/mainchain/x/beacon/types"
	enttypes "github.com/unification-com/mainchain/x/enterprise/types"
	streamtypes "github.com/unification-com/mainchain/x/stream/types"
	wrkchaintypes "github.com/unification-com/mainchain/x/wrkchain/types"

	"verifharness/fw"
	"verifharness/lab"
)

// craftedFrom: addresses that are NOT the given account but look like it to a sloppy comparison -
// the same leading bytes with more bytes behind (21 and 32 bytes: the length of module, derived and
// group-policy accounts), the address cut short, zero padded, and with the last bit flipped.
type crafted struct {
	how  string
	addr sdk.AccAddress
}

func craftedFrom(a sdk.AccAddress) []crafted {
	cp := func(n int) []byte { b := make([]byte, n); copy(b, a); return b }
	var out []crafted
	ext1 := append(cp(len(a)), 0x01)
	out = append(out, crafted{"prefix+1byte", ext1})
	ext12 := cp(32)
	for i := len(a); i < 32; i++ {
		ext12[i] = byte(0xa0 + i)
	}
	out = append(out, crafted{"prefix+12bytes", ext12})
	out = append(out, crafted{"zero-padded-to-32", cp(32)})
	out = append(out, crafted{"zero-padded+1", cp(len(a) + 1)})
	out = append(out, crafted{"cut-by-1", cp(len(a) - 1)})
	out = append(out, crafted{"cut-to-8", cp(8)})
	fl := cp(len(a))
	fl[len(fl)-1] ^= 1
	out = append(out, crafted{"last-bit-flipped", fl})
	f0 := cp(len(a))
	f0[0] ^= 0x80
	out = append(out, crafted{"first-bit-flipped", f0})
	return out
}

// c13Crafted: messages whose signer field names a crafted look-alike of the entitled party are
// handed to the message router directly (the way x/authz, x/gov and x/group dispatch messages:
// no signature is involved, the signer field is all the handler sees), on a branch of the block
// state that is thrown away afterwards. None may change the state of the four modules.
func c13Crafted(c *fw.Ctx, e *Env, g *Gen) {
	if e.Halted != "" {
		return
	}
	r := e.R
	e.BeginBlock(time.Second)
	defer e.EndBlock()
	if e.Halted != "" {
		return
	}
	obs := e.Last
	app := e.L.App
	type probe struct {
		kind     string
		entitled string // bech32 of the entitled party the crafted address is derived from
		mk       func(x string) sdk.Msg
	}
	var ps []probe
	signers, _ := signerSet(obs.EntParams)
	for _, a := range e.L.Accts {
		if !signers[ownerHex(a.Addr.String())] {
			continue
		}
		target := e.L.Accts[r.Intn(len(e.L.Accts))].Addr.String()
		ps = append(ps, probe{"Whitelist", a.Addr.String(), func(x string) sdk.Msg {
			return &enttypes.MsgWhitelistAddress{Address: target, Signer: x, Action: enttypes.WhitelistActionAdd}
		}})
		if len(obs.Whitelist) > 0 {
			wl := obs.Whitelist[r.Intn(len(obs.Whitelist))]
			ps = append(ps, probe{"WhitelistRemove", a.Addr.String(), func(x string) sdk.Msg {
				return &enttypes.MsgWhitelistAddress{Address: wl, Signer: x, Action: enttypes.WhitelistActionRemove}
			}})
		}
		if len(obs.RaisedQ) > 0 {
			id := obs.RaisedQ[r.Intn(len(obs.RaisedQ))]
			dec := enttypes.StatusAccepted
			if r.Bool() {
				dec = enttypes.StatusRejected
			}
			ps = append(ps, probe{"PoDecide", a.Addr.String(), func(x string) sdk.Msg {
				return &enttypes.MsgProcessUndPurchaseOrder{PurchaseOrderId: id, Decision: dec, Signer: x}
			}})
		}
	}
	if len(obs.Wrk) > 0 {
		wc := obs.Wrk[r.Intn(len(obs.Wrk))]
		h := g.hash(32)
		ps = append(ps, probe{"WrkRec", wc.Owner, func(x string) sdk.Msg {
			return &wrkchaintypes.MsgRecordWrkChainBlock{WrkchainId: wc.WrkchainId, Height: wc.Lastblock + 1, BlockHash: h, Owner: x}
		}}, probe{"WrkBuy", wc.Owner, func(x string) sdk.Msg {
			return &wrkchaintypes.MsgPurchaseWrkChainStateStorage{WrkchainId: wc.WrkchainId, Number: 1, Owner: x}
		}})
	}
	if len(obs.Beacons) > 0 {
		bc := obs.Beacons[r.Intn(len(obs.Beacons))]
		h := g.hash(32)
		ps = append(ps, probe{"BcnRec", bc.Owner, func(x string) sdk.Msg {
			return &beacontypes.MsgRecordBeaconTimestamp{BeaconId: bc.BeaconId, Hash: h, SubmitTime: 77, Owner: x}
		}}, probe{"BcnBuy", bc.Owner, func(x string) sdk.Msg {
			return &beacontypes.MsgPurchaseBeaconStateStorage{BeaconId: bc.BeaconId, Number: 1, Owner: x}
		}})
	}
	if len(obs.Streams) > 0 {
		st := obs.Streams[r.Intn(len(obs.Streams))]
		dep := sdk.NewCoin(st.Stream.Deposit.Denom, sdk.NewInt(st.Stream.FlowRate).MulRaw(3))
		ps = append(ps, probe{"StTopUp", st.Sender, func(x string) sdk.Msg {
			return &streamtypes.MsgTopUpDeposit{Receiver: st.Receiver, Sender: x, Deposit: dep}
		}}, probe{"StRate", st.Sender, func(x string) sdk.Msg {
			return &streamtypes.MsgUpdateFlowRate{Receiver: st.Receiver, Sender: x, FlowRate: st.Stream.FlowRate + 1}
		}}, probe{"StCancel", st.Sender, func(x string) sdk.Msg {
			return &streamtypes.MsgCancelStream{Receiver: st.Receiver, Sender: x}
		}}, probe{"StClaim", st.Receiver, func(x string) sdk.Msg {
			return &streamtypes.MsgClaimStream{Receiver: x, Sender: st.Sender}
		}}, probe{"StTopUpCraftedReceiver", st.Receiver, func(x string) sdk.Msg {
			return &streamtypes.MsgTopUpDeposit{Receiver: x, Sender: st.Sender, Deposit: dep}
		}}, probe{"StClaimCraftedSender", st.Sender, func(x string) sdk.Msg {
			return &streamtypes.MsgClaimStream{Receiver: st.Receiver, Sender: x}
		}})
	}
	rich := e.L.Accts[0]
	for _, p := range ps {
		ent, err := sdk.AccAddressFromBech32(p.entitled)
		if err != nil || len(ent) < 9 {
			continue
		}
		for _, cr := range craftedFrom(ent) {
			how, x := cr.how, cr.addr
			msg := p.mk(x.String())
			if vb, ok := msg.(interface{ ValidateBasic() error }); ok && vb.ValidateBasic() != nil {
				c.Count("crafted_rejected_stateless", 1)
				continue
			}
			h := app.MsgServiceRouter().Handler(msg)
			if h == nil {
				continue
			}
			ctx, _ := e.L.Ctx().CacheContext()
			// the look-alike is a funded account: lack of funds must not be what stops it
			for _, d := range []string{lab.Denom, obs.EntParams.Denom} {
				if bal := app.BankKeeper.GetBalance(ctx, rich.Addr, d); bal.Amount.GT(sdk.NewInt(2_000_000)) {
					_ = app.BankKeeper.SendCoins(ctx, rich.Addr, x, sdk.NewCoins(sdk.NewInt64Coin(d, 1_000_000)))
				}
			}
			before := e.L.SnapshotStores(ctx, lab.CustomStores)
			var herr error
			func() {
				defer func() {
					if rec := recover(); rec != nil {
						herr = fmt.Errorf("panic: %v", rec)
					}
				}()
				_, herr = h(ctx, msg)
			}()
			after := e.L.SnapshotStores(ctx, lab.CustomStores)
			c.Count("crafted_probes", 1)
			out := "rejected"
			if herr == nil {
				out = "ok"
			}
			c.Distinct(fmt.Sprintf("%s/crafted:%s/%s", p.kind, how, out))
			if diffs := lab.DiffSnapshots(before, after); len(diffs) > 0 {
				c.Violate("not-entitled-changed-state", p.kind+"/crafted", "%s naming %X (%s of the entitled party %X) was dispatched to the message handler (err=%v) and changed module state: %s", p.kind, []byte(x), how, []byte(ent), herr, diffs[0].String())
			}
		}
	}
}

// c13OddReceivers: streams towards receivers whose addresses are not 20 bytes long cannot be claimed
// by anybody (nobody holds a key for such an address) - unless the binding between the receiver
// field and the required signature is lost. Every lab account tries: a transaction it signs alone,
// carrying a self-transfer (so that it has a signer at all) and a claim that names the receiver.
func c13OddReceivers(c *fw.Ctx, e *Env, g *Gen) {
	if e.Halted != "" {
		return
	}
	oddReceiverStreams(c, e, g, 40)
	if e.Halted != "" || e.Last == nil {
		return
	}
	e.BeginBlock(7 * time.Second)
	defer e.EndBlock()
	for _, st := range e.Last.Streams {
		if _, ok := g.acctByAddr(st.Receiver); ok {
			continue
		}
		y := g.randAcct()
		tx := &TxPlan{Spec: lab.TxSpec{Msgs: []sdk.Msg{banktypes.NewMsgSend(y.Addr, y.Addr, sdk.NewCoins(sdk.NewInt64Coin(lab.Denom, 1))),
			&streamtypes.MsgClaimStream{Receiver: st.Receiver, Sender: st.Sender}}, Signers: []lab.Acct{y}, Gas: 1_500_000},
			Desc: fmt.Sprintf("claim for a keyless receiver (%d-byte address) signed by a%d alone", len(mustAddr(st.Receiver)), g.idx(y))}
		before := e.L.SnapshotStores(e.L.Ctx(), lab.StoreNames)
		resp, ok := e.Deliver(tx)
		if !ok {
			continue
		}
		after := e.L.SnapshotStores(e.L.Ctx(), lab.StoreNames)
		c.Count("keyless_receiver_claims", 1)
		c.Distinct(fmt.Sprintf("StClaim/keyless-receiver/ok=%v", resp.Code == 0))
		if diffs := lab.DiffSnapshots(before, after); len(diffs) > 0 {
			c.Violate("wrong-key-changed-state", "StClaim/keyless-receiver", "%s: code %d; state changed: %s", tx.Desc, resp.Code, diffs[0].String())
		}
	}
}

func mustAddr(s string) sdk.AccAddress {
	a, _ := sdk.AccAddressFromBech32(s)
	return a
}
