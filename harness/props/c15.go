package props

import (
	"bytes"
	"encoding/json"
	"fmt"
	"reflect"
	"strings"
	"time"

	dbm "github.com/cometbft/cometbft-db"
	abci "github.com/cometbft/cometbft/abci/types"
	servertypes "github.com/cosmos/cosmos-sdk/server/types"

	"verifharness/fw"
	"verifharness/lab"

	sdk "github.com/cosmos/cosmos-sdk/types"

	beacontypes "github.com/unification-com/mainchain/x/beacon/types"
	enttypes "github.com/unification-com/mainchain/x/enterprise/types"
	wrkchaintypes "github.com/unification-com/mainchain/x/wrkchain/types"
)

// C15: genesis export and import are lossless.

func init() {
	fw.Register(&fw.Property{
		ID: "C15", Level: "exploration",
		Rule: "each case: a rich mixed history (orders caught raised and - in 40% of the cases deliberately - in their one-block accepted state, partially spent eFUND, pruned registrations, expired/active/drained streams in 3 denominations, governance parameter changes) is exported with the real ExportAppStateAndValidators (both forZeroHeight modes) and a FRESH application with default options (crisis asserts every invariant inside InitChain) is initialised from the export. Rules: export and InitChain succeed; every registered invariant holds; the full custom-module observation (every order, queues, whitelist, locked/spent books, totals, registrations, limits, retained records, streams, parameters) is equal on both chains; exporting again yields identical enterprise/wrkchain/beacon/stream documents; the same 12-20 block continuation (identical signed tx bytes) has identical per-tx result codes and custom-module observations on both chains after every block. The race tier repeats cases inside the -race binary (module exporters run concurrently). distinct = state features present at export (raised/accepted orders, locked/spent, pruned, streams active/expired/drained, zero-height)",
		Cases: func(tier string) int {
			if tier == "thorough" {
				return 1500 + 1
			}
			return 64 + 1 // the last case is the export-cap case (> 20 000 retained records)
		},
		RaceCases: func(tier string) int {
			if tier == "thorough" {
				return 64
			}
			return 6
		},
		Run:  runC15,
		Need: []string{"round_trips", "continuation_blocks"},
		Assumptions: []string{"the imported chain is one block height ahead of the source after its genesis commit; heights are not compared, block times are identical",
			"SDK-module sections of the exported document are not compared"},
	})
}

var customModules = []string{"enterprise", "wrkchain", "beacon", "stream"}

func customDocs(appState json.RawMessage) (map[string]string, error) {
	var m map[string]json.RawMessage
	if err := json.Unmarshal(appState, &m); err != nil {
		return nil, err
	}
	out := map[string]string{}
	for _, k := range customModules {
		var buf bytes.Buffer
		if err := json.Compact(&buf, m[k]); err != nil {
			return nil, fmt.Errorf("%s: %v", k, err)
		}
		out[k] = buf.String()
	}
	return out, nil
}

// customView is the part of an observation that must survive export/import.
func customView(o *lab.Obs) map[string]interface{} {
	v := map[string]interface{}{
		"ent_params": o.EntParams.String(), "pos": fmt.Sprint(o.POs), "whitelist": fmt.Sprint(o.Whitelist), "total_locked": o.TotalLocked.String(), "total_spent": o.TotalSpent.String(),
		"locked": fmt.Sprint(o.LockedList), "spent": fmt.Sprint(o.SpentList), "raised_q": fmt.Sprint(o.RaisedQ), "accepted_q": fmt.Sprint(o.AcceptedQ), "next_po": o.NextPO,
		"wrk_params": o.WrkParams.String(), "wrk": fmt.Sprint(o.Wrk), "wrk_limit": fmt.Sprint(o.WrkLimit), "wrk_blocks": fmt.Sprint(o.WrkBlocks), "next_wrk": o.NextWrk,
		"beacon_params": o.BeaconParams.String(), "beacons": fmt.Sprint(o.Beacons), "beacon_limit": fmt.Sprint(o.BeaconLimit), "beacon_ts": fmt.Sprint(o.BeaconTs), "next_beacon": o.NextBeacon,
		"stream_params": o.StreamParams.String(), "streams": fmt.Sprint(o.Streams),
	}
	// balances that back the custom modules
	v["ent_escrow"] = o.Mod("enterprise").Bal.String()
	v["stream_escrow"] = o.Mod("stream").Bal.String()
	return v
}

func diffViews(a, b map[string]interface{}) []string {
	var out []string
	for k, va := range a {
		if !reflect.DeepEqual(va, b[k]) {
			out = append(out, k)
		}
	}
	return out
}

func c15Cases(tier string) int {
	if tier == "thorough" {
		return 1500
	}
	return 64
}

// c15CapCase: one BEACON and one WRKChain hold more than the 20 000 records the export keeps.
func c15CapCase(c0 *fw.Ctx, rules func(rule string) bool) {
	c := capCtx{c0, rules}
	o := lab.DefaultOptions()
	o.NAccts = 3
	o.Wrk = wrkchaintypes.NewParams(10, 1, 1, lab.Denom, 25000, 30000)
	o.Beacon = beacontypes.NewParams(10, 1, 1, lab.Denom, 25000, 30000)
	o.Home = c.Scratch + "/home"
	A := lab.New(dbm.NewMemDB(), o)
	defer A.Cleanup()
	a1 := A.Accts[1]
	A.Begin(time.Second)
	A.Tx(a1, lab.Nund(10), &wrkchaintypes.MsgRegisterWrkChain{Moniker: "cap", Name: "n", GenesisHash: "g", BaseType: "t", Owner: a1.Addr.String()})
	A.Tx(a1, lab.Nund(10), &beacontypes.MsgRegisterBeacon{Moniker: "cap", Name: "n", Owner: a1.Addr.String()})
	A.End()
	const total = 20130
	per := 90
	for done := 0; done < total; {
		A.Begin(time.Second)
		for t := 0; t < 4 && done < total; t++ {
			var mw, mb []sdk.Msg
			for i := 0; i < per && done < total; i++ {
				done++
				mw = append(mw, &wrkchaintypes.MsgRecordWrkChainBlock{WrkchainId: 1, Height: uint64(done) * 3, BlockHash: fmt.Sprintf("h%d", done), Owner: a1.Addr.String()})
				mb = append(mb, &beacontypes.MsgRecordBeaconTimestamp{BeaconId: 1, Hash: fmt.Sprintf("t%d", done), SubmitTime: uint64(1000 + done), Owner: a1.Addr.String()})
			}
			r1 := A.Deliver(A.MustBuild(lab.TxSpec{Msgs: mw, Signers: []lab.Acct{a1}, Fee: lab.Nund(int64(len(mw))), Gas: 90_000_000}))
			r2 := A.Deliver(A.MustBuild(lab.TxSpec{Msgs: mb, Signers: []lab.Acct{a1}, Fee: lab.Nund(int64(len(mb))), Gas: 90_000_000}))
			if r1.Code != 0 || r2.Code != 0 {
				panic(fmt.Sprintf("cap case setup: record tx failed: %d %s / %d %s", r1.Code, firstN(r1.Log, 100), r2.Code, firstN(r2.Log, 100)))
			}
		}
		A.End()
	}
	ex, err := A.App.ExportAppStateAndValidators(false, nil, nil)
	if err != nil {
		c.Violate("export-failed", "cap-case", "%v", err)
		return
	}
	docs1, _ := customDocs(ex.AppState)
	ob := lab.DefaultOptions()
	ob.NAccts = 3
	ob.Home = c.Scratch + "/homeB"
	dbB := dbm.NewMemDB()
	appB := lab.NewApp(dbB, ob)
	if p := safeCall(func() {
		appB.InitChain(abci.RequestInitChain{ChainId: lab.ChainID, Time: A.Time, ConsensusParams: ex.ConsensusParams, AppStateBytes: ex.AppState, InitialHeight: ex.Height})
		appB.Commit()
	}); p != nil {
		c.Violate("import-failed", "cap-case", "InitChain from an export with > 20000 records panicked: %s", firstN(fmt.Sprint(p), 300))
		return
	}
	c.Count("round_trips", 1)
	c.Count("cap_case_records", total)
	B := lab.Attach(appB, dbB, ob, appB.LastBlockHeight(), A.Time)
	ctx := B.QueryCtx()
	const keep = 20000
	// BEACON: exactly the newest 20000, counters consistent with what is queryable
	bts := appB.BeaconKeeper.GetAllBeaconTimestamps(ctx, 1)
	b, _ := appB.BeaconKeeper.GetBeacon(ctx, 1)
	if len(bts) != keep || bts[0].TimestampId != total-keep+1 || bts[len(bts)-1].TimestampId != total {
		c.Violate("export-cap-retention", "beacon", "imported beacon holds %d timestamps [%d..%d], expected the newest %d [%d..%d]", len(bts), bts[0].TimestampId, bts[len(bts)-1].TimestampId, keep, total-keep+1, total)
	}
	for _, t := range []beacontypes.BeaconTimestamp{bts[0], bts[len(bts)/2], bts[len(bts)-1]} {
		if t.Hash != fmt.Sprintf("t%d", t.TimestampId) || t.SubmitTime != uint64(1000+t.TimestampId) {
			c.Violate("export-cap-content", "beacon", "imported timestamp %d has hash %q time %d", t.TimestampId, t.Hash, t.SubmitTime)
		}
	}
	if b.NumInState != uint64(len(bts)) || b.FirstIdInState != bts[0].TimestampId || b.LastTimestampId != total {
		c.Violate("export-cap-counters", "beacon", "imported beacon counters num=%d first=%d last=%d, queryable %d [%d..%d]", b.NumInState, b.FirstIdInState, b.LastTimestampId, len(bts), bts[0].TimestampId, bts[len(bts)-1].TimestampId)
	}
	// WRKChain
	wbs := appB.WrkchainKeeper.GetAllWrkChainBlockHashes(ctx, 1)
	w, _ := appB.WrkchainKeeper.GetWrkChain(ctx, 1)
	if len(wbs) != keep || wbs[0].Height != uint64(total-keep+1)*3 || wbs[len(wbs)-1].Height != total*3 {
		c.Violate("export-cap-retention", "wrkchain", "imported wrkchain holds %d blocks [%d..%d], expected the newest %d", len(wbs), wbs[0].Height, wbs[len(wbs)-1].Height, keep)
	}
	if w.NumBlocks != uint64(len(wbs)) || w.LowestHeight != wbs[0].Height || w.Lastblock != total*3 {
		c.Violate("export-cap-counters", "wrkchain", "imported wrkchain counters num=%d lowest=%d last=%d, queryable %d [%d..%d]", w.NumBlocks, w.LowestHeight, w.Lastblock, len(wbs), wbs[0].Height, wbs[len(wbs)-1].Height)
	}
	for _, inv := range B.Invariants(ctx) {
		c.Violate("imported-chain-breaks-invariant", invName(inv), "%s", firstN(inv, 200))
	}
	ex2, err := appB.ExportAppStateAndValidators(false, nil, nil)
	if err != nil {
		c.Violate("export-failed", "cap-case-second", "%v", err)
		return
	}
	docs2, _ := customDocs(ex2.AppState)
	for _, m := range customModules {
		if docs1[m] != docs2[m] {
			c.Violate("re-export-differs", m+"/cap-case", "%s document differs between first export and export of the imported chain (%d vs %d bytes)", m, len(docs1[m]), len(docs2[m]))
		}
	}
	// the imported chain keeps working: one more record prunes/extends consistently
	B.Begin(time.Second)
	rr := B.Tx(a1, lab.Nund(1), &beacontypes.MsgRecordBeaconTimestamp{BeaconId: 1, Hash: "after", SubmitTime: 7, Owner: a1.Addr.String()})
	B.End()
	b2, _ := appB.BeaconKeeper.GetBeacon(B.QueryCtx(), 1)
	if rr.Code != 0 || b2.LastTimestampId != total+1 || b2.NumInState != keep+1 {
		c.Violate("export-cap-continuation", "beacon", "record after import: code %d, last id %d, in state %d (expected %d / %d)", rr.Code, b2.LastTimestampId, b2.NumInState, total+1, keep+1)
	}
	c.Distinct("export-cap/20130-records")
	c.Nontrivial()
}

// capCtx filters the violations of the export-cap case by rule (it is shared with C08, which owns
// only the "counters match what is queryable" rules).
type capCtx struct {
	*fw.Ctx
	rules func(rule string) bool
}

func (c capCtx) Violate(rule, sig, format string, a ...interface{}) {
	if c.rules == nil || c.rules(rule) {
		c.Ctx.Violate(rule, sig, format, a...)
	}
}

func runC15(c *fw.Ctx) {
	if !c.Race && c.Case == c15Cases(c.Tier) {
		c15CapCase(c, nil)
		return
	}
	r := c.Rng
	o := RandOptions(r)
	o.Ent.MinAccepts = 1
	o.Ent.DecisionTimeLimit = 1000
	for i := 1; i < o.NAccts; i++ {
		if r.Chance(50) {
			o.Whitelist = append(o.Whitelist, i)
		}
	}
	o.Whitelist = dedupInts(o.Whitelist)
	e := NewEnv(c, o)
	defer e.L.Cleanup()
	g := NewGen(e)
	e.DupSignersPct = 25
	w := defaultMix
	// no staking traffic (undelegating the only validator's stake leaves an export without validators)
	// and no transfers into the gov module account (x/gov's own InitGenesis refuses an account
	// balance that differs from the recorded deposits - upstream SDK behaviour, not mainchain code)
	// hostile transfers are aimed at the module accounts the bank must refuse (the escrows of the
	// enterprise and stream modules, the fee collector, the bonded pool): one that got through would
	// be a balance no record backs
	g.NoGovTarget = true
	w.Ent, w.Reg, w.Stream, w.Bank, w.Staking = 35, 30, 25, 6, 0
	w.EntHostile, w.GovPct, w.VetoPct, w.LowGasPct = 5, 4, 0, 0
	RunMixed(e, g, w, r.Range(25, 45))
	if r.Chance(50) { // parties of other address lengths must come through an export as they are
		oddReceiverStreams(c, e, g, 50)
	}
	if e.Halted != "" {
		c.Count("halted_histories", 1)
		return
	}
	// deliberately catch an order in its one-block accepted state
	if r.Chance(40) {
		for i := 0; i < 12 && len(e.Last.AcceptedQ) == 0 && e.Halted == ""; i++ {
			obs := e.Last
			var tx *TxPlan
			if len(obs.RaisedQ) > 0 && len(g.signers(obs)) > 0 {
				s := g.signers(obs)[0]
				tx = g.plan(s, nil, &enttypes.MsgProcessUndPurchaseOrder{PurchaseOrderId: obs.RaisedQ[0], Decision: enttypes.StatusAccepted, Signer: s.Addr.String()})
			} else {
				tx = g.EntTx(obs, 0)
			}
			e.Block(time.Second, tx)
		}
	}
	if e.Halted != "" {
		return
	}
	A := e.L
	zeroHeight := r.Chance(25)
	src := e.Last
	feat := []string{}
	addf := func(b bool, s string) {
		if b {
			feat = append(feat, s)
		}
	}
	addf(len(src.RaisedQ) > 0, "raised-orders")
	addf(len(src.AcceptedQ) > 0, "accepted-orders")
	addf(src.TotalLocked.Amount.IsPositive(), "locked")
	addf(src.TotalSpent.Amount.IsPositive(), "spent")
	pruned := false
	for _, wc := range src.Wrk {
		if wc.LowestHeight > 0 && uint64(len(src.WrkBlocks[wc.WrkchainId])) > 0 && wc.NumBlocks < wc.Lastblock {
			pruned = true
		}
	}
	for _, b := range src.Beacons {
		if b.FirstIdInState > 1 {
			pruned = true
		}
	}
	addf(pruned, "pruned")
	act, exp, dr := false, false, false
	for _, s := range src.Streams {
		switch {
		case s.Stream.Deposit.Amount.IsZero():
			dr = true
		case s.Stream.DepositZeroTime.After(A.Time):
			act = true
		default:
			exp = true
		}
	}
	addf(act, "stream-active")
	addf(exp, "stream-expired")
	addf(dr, "stream-drained")
	addf(zeroHeight, "zero-height")
	c.Distinct(strings.Join(feat, "+"))
	for _, f := range feat {
		c.Count("feature_"+f, 1)
	}

	// ---- export
	var ex servertypes.ExportedApp
	var err error
	if p := safeCall(func() { ex, err = A.App.ExportAppStateAndValidators(zeroHeight, nil, nil) }); p != nil || err != nil {
		c.Violate("export-failed", strings.Join(feat, "+"), "ExportAppStateAndValidators(forZeroHeight=%v) failed: panic=%v err=%v", zeroHeight, p, err)
		return
	}
	docs1, derr := customDocs(ex.AppState)
	if derr != nil {
		c.Violate("export-failed", "document", "exported document unreadable: %v", derr)
		return
	}
	// ---- import into a fresh application with default options
	ob := lab.DefaultOptions()
	ob.NAccts = o.NAccts
	ob.Kinds = o.Kinds
	ob.Home = c.Scratch + "/homeB"
	dbB := dbm.NewMemDB()
	appB := lab.NewApp(dbB, ob)
	initH := ex.Height
	if initH == 0 {
		initH = 1
	}
	if p := safeCall(func() {
		appB.InitChain(abci.RequestInitChain{ChainId: lab.ChainID, Time: A.Time, ConsensusParams: ex.ConsensusParams, Validators: nil, AppStateBytes: ex.AppState, InitialHeight: initH})
		appB.Commit()
	}); p != nil {
		cls := "other"
		ps := fmt.Sprint(p)
		for _, k := range []string{"invariant", "module account", "balance does not match", "holdings"} {
			if strings.Contains(ps, k) {
				cls = "invariant-or-balance"
			}
		}
		hasStreams := "no-funded-stream"
		for _, s := range src.Streams {
			if s.Stream.Deposit.Amount.IsPositive() {
				hasStreams = "funded-stream"
			}
		}
		c.Violate("import-failed", cls+"/"+hasStreams, "InitChain of a fresh app from the export panicked: %s | features: %s", firstN(ps, 300), strings.Join(feat, "+"))
		return
	}
	c.Count("round_trips", 1)
	B := lab.Attach(appB, dbB, ob, appB.LastBlockHeight(), A.Time)
	// ---- invariants + observation equality
	for _, b := range B.Invariants(B.QueryCtx()) {
		c.Violate("imported-chain-breaks-invariant", invName(b), "%s", firstN(b, 300))
	}
	obsB := B.Observe(B.QueryCtx())
	if !zeroHeight {
		if d := diffViews(customView(src), customView(obsB)); len(d) > 0 {
			va, vb := customView(src), customView(obsB)
			c.Violate("imported-state-differs", d[0], "custom-module state differs after import in %v: source %s | imported %s", d, firstN(fmt.Sprint(va[d[0]]), 300), firstN(fmt.Sprint(vb[d[0]]), 300))
		}
	}
	// ---- second export: identical custom documents
	var ex2 servertypes.ExportedApp
	if p := safeCall(func() { ex2, err = appB.ExportAppStateAndValidators(false, nil, nil) }); p != nil || err != nil {
		c.Violate("export-failed", "second-export", "second export failed: panic=%v err=%v", p, err)
		return
	}
	docs2, _ := customDocs(ex2.AppState)
	for _, m := range customModules {
		if docs1[m] != docs2[m] {
			c.Violate("re-export-differs", m, "%s document differs between the first export and the export of the imported chain: %s | %s", m, firstN(docs1[m], 250), firstN(docs2[m], 250))
		}
	}
	if zeroHeight {
		return
	}
	// ---- continuation: identical signed tx bytes on both chains
	eb := &Env{C: c, L: B, R: fw.NewRand(1)}
	cont := r.Range(12, 20)
	wc := w
	wc.GovPct, wc.NestedPct, wc.GranterPct = 0, 0, 0
	for b := 0; b < cont && e.Halted == "" && eb.Halted == ""; b++ {
		dt := []time.Duration{time.Second, 7 * time.Second, 61 * time.Second, 1500 * time.Second}[r.Intn(4)]
		e.BeginBlock(dt)
		eb.BeginBlock(dt)
		ntx := r.Range(1, 4)
		for i := 0; i < ntx && e.Halted == "" && eb.Halted == ""; i++ {
			obs := e.Last
			var tx *TxPlan
			switch r.Weighted([]int{wc.Ent, wc.Reg, wc.Stream}) {
			case 0:
				tx = g.EntTx(obs, 5)
			case 1:
				tx = g.WrkBeaconTx(obs, 5, 90)
			default:
				tx = g.StreamTx(obs, 5, []string{lab.Denom, lab.Denom2, lab.DenomBig})
			}
			bz, err := A.BuildTx(tx.Spec)
			if err != nil {
				continue
			}
			ra := e.DeliverRaw(tx, bz)
			rb := eb.DeliverRaw(tx, bz)
			if ra.Code != rb.Code {
				c.Violate("continuation-result-differs", msgName(tx.Spec.Msgs[0]), "tx %s: code %d on the source chain, %d on the imported chain (%s | %s)", tx.Desc, ra.Code, rb.Code, firstN(ra.Log, 100), firstN(rb.Log, 100))
			}
		}
		e.EndBlock()
		eb.EndBlock()
		if e.Halted != "" || eb.Halted != "" {
			if e.Halted != eb.Halted {
				c.Violate("continuation-halt-differs", "halt", "source halted=%q imported halted=%q", e.Halted, eb.Halted)
			}
			break
		}
		c.Count("continuation_blocks", 1)
		if d := diffViews(customView(e.Last), customView(eb.Last)); len(d) > 0 {
			va, vb := customView(e.Last), customView(eb.Last)
			c.Violate("continuation-state-differs", d[0], "after continuation block %d custom-module state differs in %v: source %s | imported %s | trace: %s", b, d, firstN(fmt.Sprint(va[d[0]]), 250), firstN(fmt.Sprint(vb[d[0]]), 250), strings.Join(e.TraceTail(4), " ; "))
			break
		}
	}
	c.Nontrivial()
	if c.Case < 2 {
		c.Sample(map[string]interface{}{"features_at_export": feat, "export_height": ex.Height, "enterprise_doc": firstN(docs1["enterprise"], 400)})
	}
}
