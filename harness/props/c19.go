package props

import (
	"github.com/cosmos/cosmos-sdk/client"
	clitestutil "github.com/cosmos/cosmos-sdk/testutil/cli"
	undcmd "github.com/unification-com/mainchain/cmd/und/cmd"

	"fmt"
	"math/big"
	"os"
	"os/exec"
	"strings"

	"verifharness/fw"

	undtypes "github.com/unification-com/mainchain/types"
)

// C19 FUND/nund denomination conversion is exact.
// Oracle: exact integer/decimal arithmetic on the input string (math/big), compared with the value
// returned by the real ConvertUndDenomination (and, in the thorough tier, the built `und convert`).

func init() {
	fw.Register(&fw.Property{
		ID:    "C19",
		Level: "exploration",
		Rule: "each case is a batch of decimal strings: a fixed boundary grid (case 0) then PRNG inputs with 1-30 significant digits and 0-9 fractional digits; " +
			"every input is converted fund->nund, the result nund->fund, and nund->fund directly, each compared with exact big-integer arithmetic; " +
			"distinct = (integer digits, fractional digits, direction) classes; non-trivial = input has > 15 significant digits or a non-zero fraction",
		Cases: func(tier string) int {
			if tier == "thorough" {
				return 400
			}
			return 96
		},
		Run:         runC19,
		Assumptions: []string{"inputs are plain non-negative decimals without exponent or sign, at most nine fractional digits, at most 30 significant digits"},
		Need:        []string{"conversions", "command_runs", "cli_runs"},
	})
}

var pow9 = new(big.Int).Exp(big.NewInt(10), big.NewInt(9), nil)

// exactFundToNund: "123.45" -> 123450000000 (string must have <= 9 fractional digits)
func exactFundToNund(s string) *big.Int {
	ip, fp := s, ""
	if i := strings.IndexByte(s, '.'); i >= 0 {
		ip, fp = s[:i], s[i+1:]
	}
	for len(fp) < 9 {
		fp += "0"
	}
	if ip == "" {
		ip = "0"
	}
	x, ok := new(big.Int).SetString(ip+fp, 10)
	if !ok {
		panic("bad decimal " + s)
	}
	return x
}

func exactNundToFund(n *big.Int) string {
	q, r := new(big.Int).QuoRem(n, pow9, new(big.Int))
	return fmt.Sprintf("%s.%09d", q.String(), r.Int64())
}

func c19CheckOne(c *fw.Ctx, in string) {
	want := exactFundToNund(in)
	ip := in
	fd := 0
	if i := strings.IndexByte(in, '.'); i >= 0 {
		ip = in[:i]
		fd = len(in) - i - 1
	}
	sig := len(strings.TrimLeft(strings.ReplaceAll(in, ".", ""), "0"))
	class := "≤15sig"
	if sig > 15 {
		class = ">15sig"
	}
	// fund -> nund
	got, err := undtypes.ConvertUndDenomination(in, "fund", "nund")
	c.Count("conversions", 1)
	c.Distinct(fmt.Sprintf("f2n/int%d/frac%d", len(ip), fd))
	if err != nil {
		c.Violate("fund-to-nund-error", class, "ConvertUndDenomination(%q, fund, nund) error: %v", in, err)
	} else if got != want.String()+"nund" {
		c.Violate("fund-to-nund-inexact", class, "ConvertUndDenomination(%q, fund, nund) = %q, exact = %q", in, got, want.String()+"nund")
	}
	// nund -> fund (input: the exact integer)
	wantF := exactNundToFund(want)
	gotF, err := undtypes.ConvertUndDenomination(want.String(), "nund", "fund")
	c.Count("conversions", 1)
	c.Distinct(fmt.Sprintf("n2f/digits%d", len(want.String())))
	if err != nil {
		c.Violate("nund-to-fund-error", class, "ConvertUndDenomination(%q, nund, fund) error: %v", want.String(), err)
	} else if gotF != wantF+"fund" {
		c.Violate("nund-to-fund-inexact", class, "ConvertUndDenomination(%q, nund, fund) = %q, exact = %q", want.String(), gotF, wantF+"fund")
	}
	// round trip through the real function only
	if err == nil && strings.HasSuffix(got, "nund") {
		back, err2 := undtypes.ConvertUndDenomination(strings.TrimSuffix(got, "nund"), "nund", "fund")
		c.Count("conversions", 1)
		if err2 != nil || back != wantF+"fund" {
			c.Violate("round-trip", class, "%q -> %q -> %q (err %v), original as nine decimals = %q", in, got, back, err2, wantF)
		}
	}
	if sig > 15 || fd > 0 {
		c.Nontrivial()
	}
}

func randDecimal(r *fw.Rand) string {
	sig := r.Range(1, 30)
	fd := r.Range(0, 9)
	digits := make([]byte, sig)
	for i := range digits {
		digits[i] = byte('0' + r.Intn(10))
	}
	if digits[0] == '0' {
		digits[0] = byte('1' + r.Intn(9))
	}
	switch r.Intn(6) {
	case 0: // runs of nines
		for i := range digits {
			digits[i] = '9'
		}
	case 1: // trailing ...5 / ...1 to sit next to a rounding boundary
		digits[len(digits)-1] = "15"[r.Intn(2)]
	}
	s := string(digits)
	if fd == 0 {
		return s
	}
	if fd >= len(s) {
		return "0." + strings.Repeat("0", fd-len(s)) + s
	}
	return s[:len(s)-fd] + "." + s[len(s)-fd:]
}

func runC19(c *fw.Ctx) {
	var inputs []string
	if c.Case == 0 {
		inputs = []string{"0", "1", "24", "0.000000001", "0.1", "0.3", "1.1", "2.675", "123456789.123456789", "120799977.917304925",
			"999999999.999999999", "1000000000", "9007199254740993", "9007199254.740993", "4503599627370497", "0.999999999",
			"16777217.000000001", "184467440737.09551615", "1.000000001", "100000000000000000000.000000001", "8.95", "1.005"}
	}
	n := 2000
	if c.Thorough() {
		n = 20000
	}
	for i := 0; i < n; i++ {
		inputs = append(inputs, randDecimal(c.Rng))
	}
	for _, in := range inputs {
		c19CheckOne(c, in)
	}
	c.Sample(map[string]interface{}{"inputs": inputs[:6]})
	// the command a user types (`und convert <amount> fund nund`), executed in-process: whatever it
	// does to its argument before and after calling the conversion is part of what the user gets.
	// The first inputs of the case plus small amounts (< 0.1 FUND, leading zeros after the point).
	cli := append([]string{}, inputs[:24]...)
	for i := 0; i < 16; i++ {
		fd := c.Rng.Range(2, 9)
		d := make([]byte, fd)
		for j := range d {
			d[j] = byte('0' + c.Rng.Intn(10))
		}
		d[0] = '0'
		cli = append(cli, "0."+string(d))
	}
	for _, in := range cli {
		for _, dir := range [][2]string{{"fund", "nund"}, {"nund", "fund"}} {
			if dir[0] == "nund" && strings.Contains(in, ".") {
				continue
			}
			var want string
			if dir[0] == "fund" {
				want = exactFundToNund(in).String() + "nund"
			} else if w, err := undtypes.ConvertUndDenomination(in, "nund", "fund"); err == nil {
				want = w // the function itself was judged above; the command must print what it returns
			} else {
				continue
			}
			out, err := clitestutil.ExecTestCLICmd(client.Context{}, undcmd.GetDenomConversionCmd(), []string{in, dir[0], dir[1]})
			c.Count("command_runs", 1)
			got := ""
			if out != nil {
				got = strings.TrimSpace(out.String())
			}
			if err != nil || !strings.HasSuffix(got, "= "+want) {
				c.Violate("command-output-inexact", dir[0]+"-to-"+dir[1], "`und convert %s %s %s` printed %q (err %v), exact result %q", in, dir[0], dir[1], got, err, want)
			}
		}
	}
	// the built binary (`und convert`, through the root command and everything it wraps around the
	// sub-command; path via VERIF_UND_BIN, built by check.sh): a few inputs per case - the first ones
	// of the case and whole amounts written with an all-zero fraction ("120.00")
	if bin := os.Getenv("VERIF_UND_BIN"); bin != "" && ((c.Thorough() && c.Case < 32) || (!c.Thorough() && c.Case < 24)) {
		bins := append([]string{}, inputs[:3]...)
		for i := 0; i < 3; i++ {
			w := fmt.Sprintf("%d%s", c.Rng.Range(1, 9999), strings.Repeat("0", c.Rng.Range(0, 3)))
			bins = append(bins, w+"."+strings.Repeat("0", c.Rng.Range(1, 9)))
		}
		for _, in := range bins {
			out, err := exec.Command(bin, "convert", in, "fund", "nund").CombinedOutput()
			c.Count("cli_runs", 1)
			want := exactFundToNund(in).String() + "nund"
			got := strings.TrimSpace(string(out))
			if err != nil || !strings.HasSuffix(got, "= "+want) || !strings.HasPrefix(got, in+"fund") {
				c.Violate("cli-fund-to-nund", "cli", "und convert %s fund nund printed %q (err %v), want \"%sfund = %s\"", in, got, err, in, want)
			}
		}
	}
}
