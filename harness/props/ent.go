package props

import (
	"fmt"
	"sort"
	"strings"

	"cosmossdk.io/math"
	abci "github.com/cometbft/cometbft/abci/types"
	sdk "github.com/cosmos/cosmos-sdk/types"
	"github.com/cosmos/cosmos-sdk/types/query"
	banktypes "github.com/cosmos/cosmos-sdk/x/bank/types"

	"verifharness/lab"

	enttypes "github.com/unification-com/mainchain/x/enterprise/types"
)

// ---------------------------------------------------------------------------------------------
// EntModel: purchase-order lifecycle reference model (C03), written from the statement.

type entDecision struct {
	Signer   string // hex of decoded address
	Decision enttypes.PurchaseOrderStatus
}
type entPO struct {
	ID        uint64
	Purchaser string // hex
	Amount    sdk.Coin
	Status    enttypes.PurchaseOrderStatus
	RaiseTime uint64
	Decisions []entDecision
	Frozen    string // marshalled terminal record
}

type EntModel struct {
	Next      uint64
	POs       map[uint64]*entPO
	order     []uint64
	Whitelist map[string]bool
	Completed map[string]math.Int // purchaser hex -> Σ completed amounts
	viol      func(rule, sig, msg string)
	Tallies   map[string]bool
	MintsSeen map[uint64]int // purchase-complete events per order id (offline exactly-once)
}

func NewEntModel(startID uint64, whitelist []string, viol func(rule, sig, msg string)) *EntModel {
	m := &EntModel{Next: startID, POs: map[uint64]*entPO{}, Whitelist: map[string]bool{}, Completed: map[string]math.Int{}, viol: viol, Tallies: map[string]bool{}, MintsSeen: map[uint64]int{}}
	for _, w := range whitelist {
		m.Whitelist[ownerHex(w)] = true
	}
	return m
}

func signerSet(p enttypes.Params) (set map[string]bool, n int) {
	set = map[string]bool{}
	parts := strings.Split(p.EntSigners, ",")
	for _, s := range parts {
		set[ownerHex(s)] = true
	}
	return set, len(parts)
}

func spelling(s string) string {
	if s == strings.ToUpper(s) {
		return "uppercase"
	}
	return "canonical"
}

// ApplyTx applies the enterprise leaves of a successful tx ("succeeded ⇒ precondition held").
func (m *EntModel) ApplyTx(leaves []sdk.Msg, nested []bool, pre *lab.Obs, blockTime uint64) {
	signers, _ := signerSet(pre.EntParams)
	for i, lf := range leaves {
		nest := "top"
		if nested[i] {
			nest = "nested"
		}
		switch x := lf.(type) {
		case *enttypes.MsgUndPurchaseOrder:
			ph := ownerHex(x.Purchaser)
			if !m.Whitelist[ph] {
				m.viol("raise-not-whitelisted", nest, fmt.Sprintf("order raised by %s which is not whitelisted", x.Purchaser))
			}
			if x.Amount.Denom != pre.EntParams.Denom {
				m.viol("raise-wrong-denom", nest, fmt.Sprintf("order raised in %s, enterprise denom is %s", x.Amount.Denom, pre.EntParams.Denom))
			}
			if !x.Amount.Amount.IsPositive() {
				m.viol("raise-non-positive", nest, fmt.Sprintf("order raised for %s", x.Amount))
			}
			po := &entPO{ID: m.Next, Purchaser: ph, Amount: x.Amount, Status: enttypes.StatusRaised, RaiseTime: blockTime}
			m.POs[po.ID] = po
			m.order = append(m.order, po.ID)
			m.Next++
		case *enttypes.MsgProcessUndPurchaseOrder:
			sh := ownerHex(x.Signer)
			if !signers[sh] {
				m.viol("decision-by-non-signer", nest, fmt.Sprintf("decision on order %d accepted from %s, not an authorised signer (%s)", x.PurchaseOrderId, x.Signer, pre.EntParams.EntSigners))
			}
			po := m.POs[x.PurchaseOrderId]
			if po == nil {
				m.viol("decision-unknown-order", nest, fmt.Sprintf("decision on unknown order %d accepted", x.PurchaseOrderId))
				continue
			}
			if po.Status != enttypes.StatusRaised {
				m.viol("decision-on-non-raised", nest, fmt.Sprintf("decision on order %d accepted while its status is %s", po.ID, po.Status))
			}
			for _, d := range po.Decisions {
				if d.Signer == sh {
					m.viol("duplicate-decision", spelling(x.Signer), fmt.Sprintf("signer %s decided order %d twice (second time spelled %q)", sh, po.ID, x.Signer))
				}
			}
			if x.Decision != enttypes.StatusAccepted && x.Decision != enttypes.StatusRejected {
				m.viol("decision-invalid-value", nest, fmt.Sprintf("decision %s accepted", x.Decision))
			}
			po.Decisions = append(po.Decisions, entDecision{sh, x.Decision})
		case *enttypes.MsgWhitelistAddress:
			sh := ownerHex(x.Signer)
			if !signers[sh] {
				m.viol("whitelist-by-non-signer", nest, fmt.Sprintf("whitelist change accepted from %s, not an authorised signer", x.Signer))
			}
			ah := ownerHex(x.Address)
			if x.Action == enttypes.WhitelistActionAdd {
				m.Whitelist[ah] = true
			} else if x.Action == enttypes.WhitelistActionRemove {
				delete(m.Whitelist, ah)
			}
		}
	}
}

// BeginBlock predicts the block hook exactly: first complete what is accepted, then tally the
// raised orders in id order with this block's time and the stored parameters.
func (m *EntModel) BeginBlock(params enttypes.Params, blockTime uint64) (completing []*entPO) {
	_, nSigners := signerSet(params)
	for _, id := range m.order {
		po := m.POs[id]
		if po.Status == enttypes.StatusAccepted {
			po.Status = enttypes.StatusCompleted
			completing = append(completing, po)
			cur, ok := m.Completed[po.Purchaser]
			if !ok {
				cur = math.ZeroInt()
			}
			m.Completed[po.Purchaser] = cur.Add(po.Amount.Amount)
		}
	}
	for _, id := range m.order {
		po := m.POs[id]
		if po.Status != enttypes.StatusRaised {
			continue
		}
		acc, rej := 0, 0
		for _, d := range po.Decisions {
			if d.Decision == enttypes.StatusAccepted {
				acc++
			} else if d.Decision == enttypes.StatusRejected {
				rej++
			}
		}
		stale := blockTime-po.RaiseTime >= params.DecisionTimeLimit
		min := int(params.MinAccepts)
		outcome := "raised"
		switch {
		case stale && acc < min:
			po.Status = enttypes.StatusRejected
			outcome = "rejected-stale"
		case rej > nSigners-min:
			po.Status = enttypes.StatusRejected
			outcome = "rejected"
		case acc >= min:
			po.Status = enttypes.StatusAccepted
			outcome = "accepted"
		}
		m.Tallies[fmt.Sprintf("n=%d/min=%d/acc=%d/rej=%d/stale=%v/%s", nSigners, min, acc, rej, stale, outcome)] = true
	}
	return
}

// Compare checks every order in state against the model, field by field; terminal records are
// frozen byte-for-byte.
func (m *EntModel) Compare(o *lab.Obs, where string) {
	if o.NextPO != m.Next {
		m.viol("next-order-id", where, fmt.Sprintf("next purchase order id %d, model %d", o.NextPO, m.Next))
		m.Next = o.NextPO
	}
	seen := map[uint64]bool{}
	for _, po := range o.POs {
		seen[po.Id] = true
		mp := m.POs[po.Id]
		if mp == nil {
			m.viol("order-unexpected", where, fmt.Sprintf("order %d exists in state but was never raised in the model", po.Id))
			continue
		}
		if po.Status != mp.Status {
			sig := fmt.Sprintf("%s/state=%s/model=%s", where, short(po.Status), short(mp.Status))
			m.viol("order-status", sig, fmt.Sprintf("order %d status %s, statement's rule gives %s (decisions %v, raise time %d, block time %d, params %v)", po.Id, po.Status, mp.Status, mp.Decisions, mp.RaiseTime, o.Time, o.EntParams))
			mp.Status = po.Status // resynchronise
		}
		if ownerHex(po.Purchaser) != mp.Purchaser || !po.Amount.IsEqual(mp.Amount) || po.RaiseTime != mp.RaiseTime {
			m.viol("order-fields", where, fmt.Sprintf("order %d purchaser/amount/raise time %s/%s/%d, raised as %s/%s/%d", po.Id, po.Purchaser, po.Amount, po.RaiseTime, mp.Purchaser, mp.Amount, mp.RaiseTime))
		}
		if len(po.Decisions) != len(mp.Decisions) {
			m.viol("order-decisions", where, fmt.Sprintf("order %d has %d recorded decisions, model %d", po.Id, len(po.Decisions), len(mp.Decisions)))
		} else {
			for i, d := range po.Decisions {
				if ownerHex(d.Signer) != mp.Decisions[i].Signer || d.Decision != mp.Decisions[i].Decision {
					m.viol("order-decisions", where, fmt.Sprintf("order %d decision %d is %s/%s, model %s/%s", po.Id, i, d.Signer, d.Decision, mp.Decisions[i].Signer, mp.Decisions[i].Decision))
				}
			}
		}
		if po.Status == enttypes.StatusCompleted || po.Status == enttypes.StatusRejected {
			bz, _ := po.Marshal()
			if mp.Frozen == "" {
				mp.Frozen = string(bz)
			} else if mp.Frozen != string(bz) {
				m.viol("terminal-order-changed", where, fmt.Sprintf("order %d (%s) changed after reaching a terminal state", po.Id, po.Status))
				mp.Frozen = string(bz)
			}
		}
	}
	for _, id := range m.order {
		if !seen[id] {
			m.viol("order-missing", where, fmt.Sprintf("order %d raised but not in state", id))
		}
	}
	// whitelist
	got := map[string]bool{}
	for _, w := range o.Whitelist {
		got[ownerHex(w)] = true
	}
	if len(got) != len(m.Whitelist) {
		m.viol("whitelist-set", where, fmt.Sprintf("whitelist has %d entries, model %d", len(got), len(m.Whitelist)))
	}
	for w := range m.Whitelist {
		if !got[w] {
			m.viol("whitelist-set", where, fmt.Sprintf("%s whitelisted in model, not in state", w))
		}
	}
}

func short(s enttypes.PurchaseOrderStatus) string { return strings.TrimPrefix(s.String(), "STATUS_") }

// EntMonitor wires the model into an Env (C03).
func NewEntMonitor(e *Env, filter func(rule string) bool) (*EntModel, *Monitor) {
	viol := func(rule, sig, msg string) {
		if filter == nil || filter(rule) {
			e.C.Violate(rule, sig, "%s | trace: %s", msg, strings.Join(e.TraceTail(5), " ; "))
		}
	}
	var wl []string
	for _, i := range e.L.Opts.Whitelist {
		wl = append(wl, e.L.Accts[i].Addr.String())
	}
	wl = append(wl, e.L.Opts.ExtraWhitelist...)
	m := NewEntModel(e.L.Opts.PoStartID, wl, viol)
	// orders already present in the genesis document (raised, undecided)
	for _, gp := range e.L.Opts.GenesisPOs {
		po := &entPO{ID: gp.Id, Purchaser: ownerHex(gp.Purchaser), Amount: gp.Amount, Status: gp.Status, RaiseTime: gp.RaiseTime}
		m.POs[po.ID] = po
		m.order = append(m.order, po.ID)
	}
	mon := &Monitor{Name: "ent"}
	mon.AfterBegin = func(e *Env, pre, post *lab.Obs, resp abci.ResponseBeginBlock) {
		completing := m.BeginBlock(pre.EntParams, uint64(post.Time))
		m.Compare(post, "begin-block")
		// crediting exactly its amount as locked eFUND to its purchaser exactly once
		want := map[string]math.Int{}
		for _, po := range completing {
			cur, ok := want[po.Purchaser]
			if !ok {
				cur = math.ZeroInt()
			}
			want[po.Purchaser] = cur.Add(po.Amount.Amount)
			e.C.Count("orders_completed", 1)
		}
		for addr, a := range post.Accts {
			d := a.Locked.Sub(pre.Accts[addr].Locked)
			w, ok := want[ownerHex(addr)]
			if !ok {
				w = math.ZeroInt()
			}
			if !d.Equal(w) {
				viol("completion-credit", "begin-block", fmt.Sprintf("BeginBlock changed locked eFUND of %s by %s, completing orders require %s", addr, d, w))
			}
		}
		for _, ev := range resp.Events {
			if ev.Type == enttypes.EventTypeUndPurchaseComplete {
				for _, at := range ev.Attributes {
					if at.Key == enttypes.AttributeKeyPurchaseOrderID {
						var id uint64
						fmt.Sscan(at.Value, &id)
						m.MintsSeen[id]++
						if m.MintsSeen[id] > 1 {
							viol("minted-twice", "event-log", fmt.Sprintf("order %d has %d und_purchase_complete events over the history", id, m.MintsSeen[id]))
						}
					}
				}
			}
		}
	}
	mon.AfterTx = func(e *Env, tx *TxPlan, pre, post *lab.Obs, resp abci.ResponseDeliverTx) {
		if resp.Code == 0 {
			leaves, nested := Flatten(tx.Spec.Msgs)
			m.ApplyTx(leaves, nested, pre, uint64(e.L.Time.Unix()))
		}
		m.Compare(post, "tx")
	}
	mon.AfterEnd = func(e *Env, pre, post *lab.Obs, resp abci.ResponseEndBlock) { m.Compare(post, "end-block") }
	mon.AfterBlock = func(e *Env, o *lab.Obs) { m.Compare(o, "committed") }
	return m, mon
}

// ---------------------------------------------------------------------------------------------
// C02 supply monitor

func coinsFromAttr(s string) sdk.Coins {
	c, err := sdk.ParseCoinsNormalized(s)
	if err != nil {
		return nil
	}
	return c
}

func NewSupplyMonitor(e *Env) *Monitor {
	viol := func(rule, sig, format string, a ...interface{}) {
		e.C.Violate(rule, sig, format+" | trace: %s", append(a, strings.Join(e.TraceTail(5), " ; "))...)
	}
	var startSupply sdk.Coins
	var completingAmt sdk.Coins
	phase := ""
	mon := &Monitor{Name: "supply"}
	burners := map[string]bool{}
	for _, n := range []string{"gov", "bonded_tokens_pool", "not_bonded_tokens_pool", "transfer"} {
		burners[lab.ModAddr(n).String()] = true
	}
	checkEvents := func(events []abci.Event, ph string) (minted, burned sdk.Coins) {
		for _, ev := range events {
			switch ev.Type {
			case banktypes.EventTypeCoinMint:
				var who string
				var amt sdk.Coins
				for _, at := range ev.Attributes {
					if at.Key == "minter" {
						who = at.Value
					}
					if at.Key == "amount" {
						amt = coinsFromAttr(at.Value)
					}
				}
				minted = minted.Add(amt...)
				if ph != "begin" || who != lab.ModAddr("enterprise").String() {
					viol("mint-outside-order-completion", ph, "coins %s minted by %s during %s", amt, who, ph)
				}
			case banktypes.EventTypeCoinBurn:
				var who string
				var amt sdk.Coins
				for _, at := range ev.Attributes {
					if at.Key == "burner" {
						who = at.Value
					}
					if at.Key == "amount" {
						amt = coinsFromAttr(at.Value)
					}
				}
				burned = burned.Add(amt...)
				if !burners[who] {
					viol("burn-by-non-protocol-account", ph, "coins %s burned by %s during %s", amt, who, ph)
				}
			}
		}
		return
	}
	var minted, burned sdk.Coins
	// "by exactly that order's amount": an order is paid out once. The ids that have completed are
	// remembered for the whole history - across export/import boundaries too - and every order ever
	// seen completed must stay completed with its amount.
	completedAmt := map[uint64]sdk.Coin{}
	mon.AfterBegin = func(e *Env, pre, post *lab.Obs, resp abci.ResponseBeginBlock) {
		for _, po := range post.POs {
			if po.Status == enttypes.StatusCompleted {
				continue
			}
			if amt, was := completedAmt[po.Id]; was {
				viol("completed-order-reopened", "begin", "purchase order %d had completed (%s paid out) and is %s again", po.Id, amt, po.Status)
			}
		}
		for _, po := range pre.POs {
			if amt, was := completedAmt[po.Id]; was && po.Status != enttypes.StatusCompleted {
				viol("completed-order-reopened", "before-begin", "purchase order %d had completed (%s paid out) and is %s again", po.Id, amt, po.Status)
			}
		}
		for _, po := range post.POs {
			if po.Status == enttypes.StatusCompleted {
				if amt, was := completedAmt[po.Id]; was && amt.String() != po.Amount.String() {
					viol("completed-order-reopened", "amount", "completed purchase order %d now shows %s, it was paid out with %s", po.Id, po.Amount, amt)
				}
				completedAmt[po.Id] = po.Amount
			}
		}
		startSupply = pre.Supply
		completingAmt = sdk.NewCoins()
		minted, burned = sdk.NewCoins(), sdk.NewCoins()
		phase = "begin"
		// orders that went accepted -> completed in this BeginBlock (from point observations)
		preStatus := map[uint64]enttypes.PurchaseOrderStatus{}
		for _, po := range pre.POs {
			preStatus[po.Id] = po.Status
		}
		for _, po := range post.POs {
			if po.Status == enttypes.StatusCompleted && preStatus[po.Id] != enttypes.StatusCompleted {
				completingAmt = completingAmt.Add(po.Amount)
				e.C.Count("mints", 1)
			}
		}
		mi, bu := checkEvents(resp.Events, phase)
		minted, burned = minted.Add(mi...), burned.Add(bu...)
		want := pre.Supply.Add(completingAmt...).Sub(bu...)
		if !post.Supply.IsEqual(want) {
			viol("supply-delta-begin-block", "begin", "supply after BeginBlock %s, expected %s (= %s + completing orders %s - burns %s)", post.Supply, want, pre.Supply, completingAmt, bu)
		}
	}
	mon.AfterTx = func(e *Env, tx *TxPlan, pre, post *lab.Obs, resp abci.ResponseDeliverTx) {
		mi, bu := checkEvents(resp.Events, "tx")
		minted, burned = minted.Add(mi...), burned.Add(bu...)
		want := pre.Supply.Sub(bu...)
		if !post.Supply.IsEqual(want) {
			nest := "top"
			if _, n := Flatten(tx.Spec.Msgs); len(n) > 0 && n[0] {
				nest = "nested"
			}
			viol("supply-changed-by-tx", nest, "tx %s changed supply from %s to %s (burn events %s)", tx.Desc, pre.Supply, post.Supply, bu)
		}
	}
	mon.AfterEnd = func(e *Env, pre, post *lab.Obs, resp abci.ResponseEndBlock) {
		mi, bu := checkEvents(resp.Events, "end")
		minted, burned = minted.Add(mi...), burned.Add(bu...)
		want := pre.Supply.Sub(bu...)
		if !post.Supply.IsEqual(want) {
			viol("supply-changed-by-end-block", "end", "EndBlock changed supply from %s to %s (burn events %s)", pre.Supply, post.Supply, bu)
		}
	}
	mon.AfterBlock = func(e *Env, o *lab.Obs) {
		want := startSupply.Add(completingAmt...).Sub(burned...)
		if !o.Supply.IsEqual(want) {
			viol("supply-delta-block", "block", "supply after block %d is %s, expected %s (start %s + completed orders %s - burns %s)", o.Height, o.Supply, want, startSupply, completingAmt, burned)
		}
		// Σ balances == supply for every denomination (walk every balance in the bank store)
		ctx := e.L.QueryCtx()
		sum := sdk.NewCoins()
		e.L.App.BankKeeper.IterateAllBalances(ctx, func(_ sdk.AccAddress, c sdk.Coin) bool { sum = sum.Add(c); return false })
		if !sum.IsEqual(o.Supply) {
			viol("balances-sum-vs-supply", "block", "sum of all balances %s != recorded supply %s at height %d", sum, o.Supply, o.Height)
		}
		for _, b := range e.L.Invariants(ctx) {
			viol("registered-invariant-broken", invName(b), "at height %d: %s", o.Height, firstN(b, 300))
		}
		e.C.Count("block_boundaries", 1)
	}
	return mon
}

func invName(s string) string {
	if i := strings.Index(s, ":"); i > 0 {
		return s[:i]
	}
	return "?"
}

// ---------------------------------------------------------------------------------------------
// C04 locked eFUND books

func sumLocked(l []enttypes.LockedUnd) math.Int {
	t := math.ZeroInt()
	for _, x := range l {
		t = t.Add(x.Amount.Amount)
	}
	return t
}
func sumSpent(l []enttypes.SpentEFUND) math.Int {
	t := math.ZeroInt()
	for _, x := range l {
		t = t.Add(x.Amount.Amount)
	}
	return t
}

func hasTopLevelWrkBeacon(msgs []sdk.Msg) bool {
	for _, m := range msgs {
		if isWrkMsg(m) || isBeaconMsg(m) {
			return true
		}
	}
	return false
}

func NewLockedBooksMonitor(e *Env) *Monitor {
	viol := func(rule, sig, format string, a ...interface{}) {
		e.C.Violate(rule, sig, format+" | trace: %s", append(a, strings.Join(e.TraceTail(5), " ; "))...)
	}
	escrow := lab.ModAddr("enterprise").String()
	mon := &Monitor{Name: "locked-books"}
	books := func(o *lab.Obs, where string) {
		denom := o.EntParams.Denom
		esc := o.Accts[escrow].Bal.AmountOf(denom)
		tl := o.TotalLocked.Amount
		sl := sumLocked(o.LockedList)
		if !esc.Equal(tl) || !tl.Equal(sl) {
			viol("locked-books-three-way", where, "escrow balance %s, reported total locked %s, sum of per-account locked %s (height %d)", esc, tl, sl, o.Height)
		}
		if ts, ss := o.TotalSpent.Amount, sumSpent(o.SpentList); !ts.Equal(ss) {
			viol("spent-books", where, "reported total spent %s, sum of per-account spent %s (height %d)", ts, ss, o.Height)
		}
		// per account: locked + spent == Σ completed orders
		completed := map[string]math.Int{}
		for _, po := range o.POs {
			if po.Status == enttypes.StatusCompleted {
				h := ownerHex(po.Purchaser)
				cur, ok := completed[h]
				if !ok {
					cur = math.ZeroInt()
				}
				completed[h] = cur.Add(po.Amount.Amount)
			}
		}
		acct := map[string]math.Int{}
		for _, l := range o.LockedList {
			acct[ownerHex(l.Owner)] = l.Amount.Amount
		}
		for _, s := range o.SpentList {
			h := ownerHex(s.Owner)
			cur, ok := acct[h]
			if !ok {
				cur = math.ZeroInt()
			}
			acct[h] = cur.Add(s.Amount.Amount)
		}
		for h, a := range acct {
			c, ok := completed[h]
			if !ok {
				c = math.ZeroInt()
			}
			if !a.Equal(c) {
				viol("account-locked-plus-spent", where, "account %s locked+spent %s, sum of its completed orders %s (height %d)", h, a, c, o.Height)
			}
		}
		for h, c := range completed {
			if _, ok := acct[h]; !ok && c.IsPositive() {
				viol("account-locked-plus-spent", where, "account %s has completed orders %s but no locked/spent record (height %d)", h, c, o.Height)
			}
		}
		// the queries named in the property (client boundary) agree with the keeper reads
	}
	mon.AfterBegin = func(e *Env, pre, post *lab.Obs, resp abci.ResponseBeginBlock) {
		d := post.Accts[escrow].Bal.Sub(pre.Accts[escrow].Bal...)
		comp := sdk.NewCoins()
		preStatus := map[uint64]enttypes.PurchaseOrderStatus{}
		for _, po := range pre.POs {
			preStatus[po.Id] = po.Status
		}
		for _, po := range post.POs {
			if po.Status == enttypes.StatusCompleted && preStatus[po.Id] != enttypes.StatusCompleted {
				comp = comp.Add(po.Amount)
				e.C.Count("completions", 1)
			}
		}
		if !d.IsEqual(comp) {
			viol("escrow-delta-begin-block", "begin", "BeginBlock changed escrow by %s, completing orders %s", d, comp)
		}
	}
	mon.AfterTx = func(e *Env, tx *TxPlan, pre, post *lab.Obs, resp abci.ResponseDeliverTx) {
		preB, postB := pre.Accts[escrow].Bal, post.Accts[escrow].Bal
		// classify what this tx tried with respect to the escrow (evidence: distinct situations)
		leaves, nested := Flatten(tx.Spec.Msgs)
		if len(leaves) > 0 {
			aim := "other"
			if strings.Contains(fmt.Sprint(leaves[0]), escrow) {
				aim = "aimed-at-escrow"
			}
			if hasTopLevelWrkBeacon(tx.Spec.Msgs) {
				payer := feePayerOf(tx)
				fee := tx.Spec.Fee.AmountOf(pre.EntParams.Denom)
				lk := pre.Accts[payer].Locked
				switch {
				case lk.IsZero():
					aim = "fee-tx/nothing-locked"
				case lk.GT(fee):
					aim = "fee-tx/locked>fee"
				case lk.Equal(fee):
					aim = "fee-tx/locked==fee"
				default:
					aim = "fee-tx/locked<fee"
				}
				if tx.Spec.Granter != nil {
					aim += "/granter"
				}
			}
			n := "top"
			if nested[0] {
				n = "nested"
			}
			out := "ok"
			if resp.Code != 0 {
				out = "fail"
			}
			moved := "escrow-unchanged"
			if !preB.IsEqual(postB) {
				moved = "escrow-moved"
			}
			e.C.Distinct(fmt.Sprintf("%s/%s/%s/%s/%s", msgName(leaves[0]), n, aim, out, moved))
		}
		if preB.IsEqual(postB) {
			return
		}
		if !hasTopLevelWrkBeacon(tx.Spec.Msgs) {
			viol("escrow-moved-by-non-fee-tx", msgName(tx.Spec.Msgs[0]), "tx %s changed the enterprise escrow from %s to %s", tx.Desc, preB, postB)
			return
		}
		// a fee unlock: escrow decreases by exactly what the payer's locked decreased
		payer := feePayerOf(tx)
		dl := pre.Accts[payer].Locked.Sub(post.Accts[payer].Locked)
		de, neg := preB.SafeSub(postB...)
		if neg || !de.IsEqual(sdk.NewCoins(sdk.NewCoin(pre.EntParams.Denom, dl))) {
			viol("escrow-delta-vs-unlock", "tx", "tx %s changed escrow %s -> %s but payer's locked eFUND fell by %s", tx.Desc, preB, postB, dl)
		}
		full := "partial"
		if post.Accts[payer].Locked.IsZero() {
			full = "full-drain"
		}
		e.C.Count("unlocks", 1)
		e.C.Distinct("unlock/" + full)
	}
	mon.AfterEnd = func(e *Env, pre, post *lab.Obs, resp abci.ResponseEndBlock) {
		if !pre.Accts[escrow].Bal.IsEqual(post.Accts[escrow].Bal) {
			viol("escrow-moved-by-end-block", "end", "EndBlock changed escrow %s -> %s", pre.Accts[escrow].Bal, post.Accts[escrow].Bal)
		}
	}
	mon.AfterBlock = func(e *Env, o *lab.Obs) {
		books(o, "committed")
		// the four queries of the property at the client boundary
		ctx := sdk.WrapSDKContext(e.L.QueryCtx())
		ek := enttypes.NewQueryClient(lab.ABCIConn{App: e.L.App})
		tl, err1 := ek.TotalLocked(ctx, &enttypes.QueryTotalLockedRequest{})
		ts, err2 := ek.TotalSpentEFUND(ctx, &enttypes.QueryTotalSpentEFUNDRequest{})
		if err1 != nil || err2 != nil {
			viol("locked-query-error", "query", "TotalLocked/TotalSpent query error %v %v", err1, err2)
			return
		}
		sl, ss := math.ZeroInt(), math.ZeroInt()
		// every account that can hold eFUND in these histories: the lab accounts and the gov module
		// account (the only module account that can raise an order, through a proposal)
		type holder struct{ Addr sdk.AccAddress }
		holders := []holder{{lab.ModAddr("gov")}}
		for _, a := range e.L.Accts {
			holders = append(holders, holder{a.Addr})
		}
		for _, a := range holders {
			r1, e1 := ek.LockedUndByAddress(ctx, &enttypes.QueryLockedUndByAddressRequest{Owner: a.Addr.String()})
			r2, e2 := ek.SpentEFUNDByAddress(ctx, &enttypes.QuerySpentEFUNDByAddressRequest{Address: a.Addr.String()})
			if e1 != nil || e2 != nil {
				viol("locked-query-error", "query", "per-account query error %v %v", e1, e2)
				continue
			}
			sl = sl.Add(r1.Amount.Amount)
			ss = ss.Add(r2.Amount.Amount)
			// the per-account summary endpoint reports the same books (and the account's own balance)
			if r3, e3 := ek.EnterpriseAccount(ctx, &enttypes.QueryEnterpriseAccountRequest{Address: a.Addr.String()}); e3 != nil {
				viol("locked-query-error", "query", "EnterpriseAccount query error %v", e3)
			} else {
				ao := o.Accts[a.Addr.String()]
				bal := ao.Bal.AmountOf(o.EntParams.Denom)
				ac := r3.Account
				if !ac.LockedEfund.Amount.Equal(r1.Amount.Amount) || !ac.SpentEfund.Amount.Equal(r2.Amount.Amount) || !ac.LockedEfund.Amount.Equal(ao.Locked) || !ac.SpentEfund.Amount.Equal(ao.Spent) ||
					!ac.GeneralSupply.Amount.Equal(bal) || !ac.Spendable.Amount.Equal(bal.Add(ao.Locked)) {
					viol("locked-queries-disagree", "enterprise-account", "EnterpriseAccount(%s) reports locked %s spent %s balance %s spendable %s; LockedUndByAddress %s, SpentEFUNDByAddress %s, books locked %s spent %s, bank balance %s",
						a.Addr, ac.LockedEfund, ac.SpentEfund, ac.GeneralSupply, ac.Spendable, r1.Amount, r2.Amount, ao.Locked, ao.Spent, bal)
				}
			}
		}
		esc := o.Accts[escrow].Bal.AmountOf(o.EntParams.Denom)
		if !tl.Amount.Amount.Equal(sl) || !tl.Amount.Amount.Equal(esc) || !ts.Amount.Amount.Equal(ss) {
			viol("locked-queries-disagree", "query", "queries: TotalLocked %s, Σ LockedUndByAddress %s, escrow %s; TotalSpent %s, Σ SpentEFUNDByAddress %s", tl.Amount, sl, esc, ts.Amount, ss)
		}
		e.C.Count("book_checks", 1)
	}
	return mon
}

// ---------------------------------------------------------------------------------------------
// C05 locked eFUND is spent only as WRKChain/BEACON fees

func NewLockedSpendMonitor(e *Env) *Monitor {
	viol := func(rule, sig, format string, a ...interface{}) {
		e.C.Violate(rule, sig, format+" | trace: %s", append(a, strings.Join(e.TraceTail(5), " ; "))...)
	}
	kindOf := func(addr string) string {
		for _, a := range e.L.Accts {
			if a.Addr.String() == addr {
				return a.Kind
			}
		}
		return "module"
	}
	mon := &Monitor{Name: "locked-spend"}
	mon.AfterBegin = func(e *Env, pre, post *lab.Obs, resp abci.ResponseBeginBlock) {
		// completing a purchase order never increases the purchaser's spendable balance
		for _, a := range e.L.Accts {
			addr := a.Addr.String()
			if post.Accts[addr].Locked.GT(pre.Accts[addr].Locked) {
				before := e.SpendableAtNewTime[addr]
				after := post.Accts[addr].Spendable
				e.C.Count("completions_observed", 1)
				e.C.Distinct("completion/" + a.Kind)
				if _, neg := before.SafeSub(after...); neg {
					viol("completion-raises-spendable", a.Kind, "order completion for %s (%s account) raised its spendable balance from %s to %s (both at block time %d)", addr, a.Kind, before, after, post.Time)
				}
			}
		}
	}
	mon.AfterTx = func(e *Env, tx *TxPlan, pre, post *lab.Obs, resp abci.ResponseDeliverTx) {
		payer := feePayerOf(tx)
		anteFailed := false
		s0 := tx.Spec.Signers[0].Addr.String()
		if post.Accts[s0].Seq == pre.Accts[s0].Seq {
			anteFailed = true
		}
		top := hasTopLevelWrkBeacon(tx.Spec.Msgs)
		for addr, pa := range pre.Accts {
			qa := post.Accts[addr]
			dl := pa.Locked.Sub(qa.Locked) // decrease
			ds := qa.Spent.Sub(pa.Spent)
			if dl.IsZero() && ds.IsZero() {
				continue
			}
			if anteFailed {
				viol("locked-changed-by-rejected-tx", "ante-failed", "tx %s was rejected before execution (sequence unchanged) but locked/spent of %s changed by -%s/+%s", tx.Desc, addr, dl, ds)
				continue
			}
			if dl.IsNegative() {
				viol("locked-increased-by-tx", msgName(tx.Spec.Msgs[0]), "tx %s increased locked eFUND of %s by %s", tx.Desc, addr, dl.Neg())
				continue
			}
			if !top {
				nest := "no-wrk-beacon"
				if leaves, _ := Flatten(tx.Spec.Msgs); len(leaves) > 0 {
					for _, l := range leaves {
						if isWrkMsg(l) || isBeaconMsg(l) {
							nest = "nested-wrk-beacon"
						}
					}
				}
				viol("locked-spent-without-wrk-beacon-msg", nest, "tx %s has no top-level WRKChain/BEACON message but locked eFUND of %s fell by %s", tx.Desc, addr, dl)
				continue
			}
			if addr != payer {
				viol("locked-spent-of-non-payer", "tx", "tx %s (payer %s) reduced locked eFUND of %s by %s", tx.Desc, payer, addr, dl)
				continue
			}
			fee := tx.Spec.Fee.AmountOf(pre.EntParams.Denom)
			want := math.MinInt(fee, pa.Locked)
			extra := "single-denom-fee"
			if len(tx.Spec.Fee) > 1 {
				extra = "multi-denom-fee"
			}
			if !dl.Equal(want) {
				viol("unlock-amount", extra, "tx %s (fee %s) reduced payer's locked eFUND by %s, expected min(fee %s, locked %s) = %s", tx.Desc, tx.Spec.Fee, dl, fee, pa.Locked, want)
			}
			if !ds.Equal(dl) {
				viol("unlock-not-recorded-as-spent", extra, "tx %s reduced locked by %s but spent rose by %s", tx.Desc, dl, ds)
			}
			rel := "locked>=fee"
			if pa.Locked.LT(fee) {
				rel = "locked<fee"
			}
			gr := "self-paid"
			if tx.Spec.Granter != nil {
				gr = "granter"
			}
			out := "ok"
			if resp.Code != 0 {
				out = "msg-failed"
			}
			e.C.Count("unlocks_observed", 1)
			e.C.Distinct(fmt.Sprintf("unlock/%s/%s/%s/%s/%s", kindOf(addr), rel, gr, extra, out))
		}
		// "... and then by exactly min(fee, locked)": a transaction with a top-level WRKChain/BEACON
		// message that passed the pre-execution stage, paid by an account with locked eFUND and a
		// positive fee in the enterprise denomination, DOES reduce the payer's locked eFUND by that amount
		if top && !anteFailed {
			if pa, ok := pre.Accts[payer]; ok {
				fee := tx.Spec.Fee.AmountOf(pre.EntParams.Denom)
				want := math.MinInt(fee, pa.Locked)
				if want.IsPositive() {
					if got := pa.Locked.Sub(post.Accts[payer].Locked); !got.Equal(want) {
						viol("unlock-missing", "payer-with-locked-efund", "tx %s (fee %s) passed the pre-execution checks; its payer %s held %s locked eFUND, which fell by %s instead of min(fee, locked) = %s", tx.Desc, tx.Spec.Fee, payer, pa.Locked, got, want)
					}
					e.C.Count("unlocks_required", 1)
				}
			}
		}
	}
	return mon
}

// ---------------------------------------------------------------------------------------------
// C17 supply queries

func NewSupplyQueriesMonitor(e *Env) *Monitor {
	viol := func(rule, sig, format string, a ...interface{}) {
		e.C.Violate(rule, sig, format+" | trace: %s", append(a, strings.Join(e.TraceTail(3), " ; "))...)
	}
	mon := &Monitor{Name: "supply-queries"}
	mon.AfterBlock = func(e *Env, o *lab.Obs) {
		ctx := e.L.QueryCtx()
		g := sdk.WrapSDKContext(ctx)
		// served the way a client is served: through the ABCI Query entry point and the services as
		// the module registered them (AfterBlock: the last committed state)
		ek := enttypes.NewQueryClient(lab.ABCIConn{App: e.L.App})
		native := o.EntParams.Denom
		bankSupply := sdk.NewCoins()
		e.L.App.BankKeeper.IterateTotalSupply(ctx, func(c sdk.Coin) bool { bankSupply = bankSupply.Add(c); return false })
		lockedRes, err := ek.TotalLocked(g, &enttypes.QueryTotalLockedRequest{})
		if err != nil {
			viol("supply-query-error", "TotalLocked", "%v", err)
			return
		}
		locked := lockedRes.Amount.Amount
		// the figure that is subtracted must BE the total locked eFUND: what the escrow account holds
		// and what the per-account records add up to
		sumLocked := math.ZeroInt()
		for _, l := range o.LockedList {
			sumLocked = sumLocked.Add(l.Amount.Amount)
		}
		if esc := o.Accts[lab.ModAddr("enterprise").String()].Bal.AmountOf(native); !locked.Equal(esc) || !locked.Equal(sumLocked) {
			viol("locked-figure-vs-escrow", "native", "the total locked eFUND used for the supply figures is %s, the escrow account holds %s and the per-account records add up to %s", locked, esc, sumLocked)
		}
		wantNative := bankSupply.AmountOf(native).Sub(locked)
		state := "zero-locked"
		if locked.IsPositive() {
			state = "partial"
			if o.TotalSpent.Amount.IsPositive() {
				state = "partial+spent"
			}
		} else if o.TotalSpent.Amount.IsPositive() {
			state = "fully-spent"
		}
		e.C.Distinct(fmt.Sprintf("supply-state/%s/denoms=%d", state, len(bankSupply)))
		if wantNative.IsNegative() {
			viol("negative-circulating", "native", "bank supply %s minus locked %s is negative", bankSupply.AmountOf(native), locked)
		}
		// SupplyOf for every denom (+ Overwrite alias)
		for _, c := range bankSupply {
			for _, ow := range []bool{false, true} {
				var r *enttypes.QuerySupplyOfResponse
				var err error
				if ow {
					r, err = ek.SupplyOfOverwrite(g, &enttypes.QuerySupplyOfRequest{Denom: c.Denom})
				} else {
					r, err = ek.SupplyOf(g, &enttypes.QuerySupplyOfRequest{Denom: c.Denom})
				}
				e.C.Count("supply_queries", 1)
				if err != nil {
					viol("supply-query-error", "SupplyOf", "SupplyOf(%s): %v", c.Denom, err)
					continue
				}
				want := c.Amount
				cls := "other-denom"
				if c.Denom == native {
					want = wantNative
					cls = "native"
				}
				if !r.Amount.Amount.Equal(want) || r.Amount.Denom != c.Denom {
					viol("supply-of", cls, "SupplyOf(%s) = %s, expected %s (bank supply %s, locked %s)", c.Denom, r.Amount, want, c.Amount, locked)
				}
			}
		}
		// EnterpriseSupply, TotalUnlocked
		es, err := ek.EnterpriseSupply(g, &enttypes.QueryEnterpriseSupplyRequest{})
		e.C.Count("supply_queries", 1)
		if err != nil {
			viol("supply-query-error", "EnterpriseSupply", "%v", err)
		} else {
			s := es.Supply
			if math.NewIntFromUint64(s.Total).String() != bankSupply.AmountOf(native).String() || math.NewIntFromUint64(s.Locked).String() != locked.String() ||
				math.NewIntFromUint64(s.Amount).String() != wantNative.String() || s.Locked+s.Amount != s.Total || s.Denom != native {
				viol("enterprise-supply", "native", "EnterpriseSupply = %+v, expected total %s locked %s unlocked %s", s, bankSupply.AmountOf(native), locked, wantNative)
			}
		}
		tu, err := ek.TotalUnlocked(g, &enttypes.QueryTotalUnlockedRequest{})
		e.C.Count("supply_queries", 1)
		if err != nil {
			viol("supply-query-error", "TotalUnlocked", "%v", err)
		} else if !tu.Amount.Amount.Equal(wantNative) {
			viol("total-unlocked", "native", "TotalUnlocked = %s, expected %s", tu.Amount, wantNative)
		}
		// TotalSupply listing with every page size, key- and offset-based; each denom exactly once
		n := len(bankSupply)
		for limit := 1; limit <= n+2; limit++ {
			for _, mode := range []string{"key", "offset", "key-reverse", "offset-reverse"} {
				rev := strings.HasSuffix(mode, "-reverse")
				byKey := strings.HasPrefix(mode, "key")
				got := map[string]math.Int{}
				dup := ""
				var key []byte
				off := uint64(0)
				pages := 0
				for {
					pr := &query.PageRequest{Limit: uint64(limit), CountTotal: !byKey, Reverse: rev}
					if byKey {
						pr.Key = key
					} else {
						pr.Offset = off
					}
					var r *enttypes.QueryTotalSupplyResponse
					var err error
					if pages%2 == 0 {
						r, err = ek.TotalSupply(g, &enttypes.QueryTotalSupplyRequest{Pagination: pr})
					} else {
						r, err = ek.TotalSupplyOverwrite(g, &enttypes.QueryTotalSupplyRequest{Pagination: pr})
					}
					e.C.Count("supply_queries", 1)
					if err != nil {
						viol("supply-query-error", "TotalSupply", "limit %d %s: %v", limit, mode, err)
						break
					}
					for _, c := range r.Supply {
						if _, ok := got[c.Denom]; ok {
							dup = c.Denom
						}
						got[c.Denom] = c.Amount
					}
					pages++
					off += uint64(limit)
					if byKey {
						if r.Pagination == nil || len(r.Pagination.NextKey) == 0 {
							break
						}
						key = r.Pagination.NextKey
					} else if len(r.Supply) == 0 || off >= uint64(n)+2 {
						break
					}
					if pages > n+5 {
						break
					}
				}
				e.C.Count("page_walks", 1)
				e.C.Distinct(fmt.Sprintf("total-supply-walk/%s/limit%s/denoms=%d/%s", mode, limitClass(uint64(limit), n), n, state))
				if dup != "" {
					viol("total-supply-listing", mode, "denom %s listed twice (limit %d, %s)", dup, limit, mode)
				}
				var ds []string
				for _, c := range bankSupply {
					ds = append(ds, c.Denom)
					want := c.Amount
					if c.Denom == native {
						want = wantNative
					}
					g2, ok := got[c.Denom]
					if !ok {
						viol("total-supply-listing", mode, "denom %s missing from the paginated TotalSupply listing (limit %d, %s); got %v", c.Denom, limit, mode, keysOfMap(got))
					} else if !g2.Equal(want) {
						cls := "other-denom"
						if c.Denom == native {
							cls = "native"
						}
						viol("total-supply-amount", cls, "TotalSupply lists %s%s, expected %s (limit %d, %s)", g2, c.Denom, want, limit, mode)
					}
				}
				if len(got) != len(bankSupply) {
					viol("total-supply-listing", mode, "TotalSupply listing has %d denoms, bank has %d (%v)", len(got), len(bankSupply), ds)
				}
			}
		}
		// a client may resume from ANY denom as key, in either direction: every denom a page lists must
		// carry the right figure
		for si, start := range bankSupply {
			for _, rev := range []bool{false, true} {
				if rev && si == len(bankSupply)-1 {
					// upstream: query.Paginate's reverse iterator setup calls Key() on an exhausted iterator
					// when the resume key is the greatest key of the store (SDK v0.47.13 getIterator) and
					// panics inside the SDK; not reachable through NextKey walks, not mainchain code
					e.C.Count("reverse_from_greatest_key_skipped_upstream_panic", 1)
					continue
				}
				for _, limit := range []uint64{1, 2, uint64(n) + 1} {
					r, err := ek.TotalSupply(g, &enttypes.QueryTotalSupplyRequest{Pagination: &query.PageRequest{Key: []byte(start.Denom), Limit: limit, Reverse: rev}})
					e.C.Count("supply_queries", 1)
					if err != nil {
						viol("supply-query-error", "TotalSupply", "key %s limit %d reverse %v: %v", start.Denom, limit, rev, err)
						continue
					}
					e.C.Count("direct_key_pages", 1)
					for _, c := range r.Supply {
						want := bankSupply.AmountOf(c.Denom)
						cls := "other-denom"
						if c.Denom == native {
							want, cls = wantNative, "native"
						}
						if !c.Amount.Equal(want) {
							viol("total-supply-amount", cls, "TotalSupply page from key %s (limit %d, reverse %v) lists %s%s, expected %s", start.Denom, limit, rev, c.Amount, c.Denom, want)
						}
					}
				}
			}
		}
	}
	return mon
}

func keysOfMap(m map[string]math.Int) []string {
	var ks []string
	for k := range m {
		ks = append(ks, k)
	}
	sort.Strings(ks)
	return ks
}
