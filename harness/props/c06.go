package props

import (
	"fmt"
	"math/big"
	"sort"
	"strings"
	"time"

	"cosmossdk.io/math"
	sdk "github.com/cosmos/cosmos-sdk/types"
	banktypes "github.com/cosmos/cosmos-sdk/x/bank/types"
	"github.com/cosmos/cosmos-sdk/x/group"

	"verifharness/fw"
	"verifharness/lab"

	beacontypes "github.com/unification-com/mainchain/x/beacon/types"
	enttypes "github.com/unification-com/mainchain/x/enterprise/types"
	wrkchaintypes "github.com/unification-com/mainchain/x/wrkchain/types"
)

// C06: WRKChain/BEACON operations are admitted (CheckTx) only with the exact parameterised fee.
// Refutation: CheckTx code 0, the tx delivered in the next block succeeds and executes K>=1
// WRKChain/BEACON operations (top-level or nested), and for some module fee denomination D the
// offered amount != sum of the current fees of those operations in D.

func init() {
	fw.Register(&fw.Property{
		ID: "C06", Level: "exploration",
		Rule: "each case: random fee parameter set (equal/different fees and fee denominations across the two modules) + registrations owned by several accounts + authz grants; then 60-90 generated transactions: message multisets of 1-4 of {register, record, purchase-n} x {WRKChain, BEACON} mixed with bank sends, top-level or wrapped in authz MsgExec (depth 1-3), fee sets {exact, missing, lower, higher, one module's sum only} x {no extra denom, extra denom, only extra denom}, payers with balances around the fee and with locked eFUND. Each is sent to CheckTx; admitted ones are delivered in the next block and the executed operations are priced by an independent FeeOracle from the stored parameters. distinct = (multiset shape, nesting, fee relation, extra denom?, admitted?); non-trivial = admitted-and-executed or rejected-with-exact-fee cases",
		Cases: func(tier string) int {
			if tier == "thorough" {
				return 4000
			}
			return 192
		},
		Run:         runC06,
		Need:        []string{"checktx", "admitted_executed"},
		Assumptions: []string{"nesting through x/authz MsgExec (depth 1-3) and x/group proposals executed with Exec_TRY", "single-signer transactions"},
	})
}

type feeOracle struct {
	wrk    wrkchaintypes.Params
	beacon beacontypes.Params
}

// expected returns the exact fee per denomination for the WRKChain/BEACON leaves, plus counts.
func (f feeOracle) expected(leaves []sdk.Msg) (fee sdk.Coins, nWrk, nBeacon int) {
	fee = sdk.NewCoins()
	u := math.NewIntFromUint64
	for _, m := range leaves {
		switch x := m.(type) {
		case *wrkchaintypes.MsgRegisterWrkChain:
			fee = fee.Add(sdk.NewCoin(f.wrk.Denom, u(f.wrk.FeeRegister)))
			nWrk++
		case *wrkchaintypes.MsgRecordWrkChainBlock:
			fee = fee.Add(sdk.NewCoin(f.wrk.Denom, u(f.wrk.FeeRecord)))
			nWrk++
		case *wrkchaintypes.MsgPurchaseWrkChainStateStorage:
			fee = fee.Add(sdk.NewCoin(f.wrk.Denom, u(f.wrk.FeePurchaseStorage).Mul(u(x.Number))))
			nWrk++
		case *beacontypes.MsgRegisterBeacon:
			fee = fee.Add(sdk.NewCoin(f.beacon.Denom, u(f.beacon.FeeRegister)))
			nBeacon++
		case *beacontypes.MsgRecordBeaconTimestamp:
			fee = fee.Add(sdk.NewCoin(f.beacon.Denom, u(f.beacon.FeeRecord)))
			nBeacon++
		case *beacontypes.MsgPurchaseBeaconStateStorage:
			fee = fee.Add(sdk.NewCoin(f.beacon.Denom, u(f.beacon.FeePurchaseStorage).Mul(u(x.Number))))
			nBeacon++
		}
	}
	return
}

func runC06(c *fw.Ctx) {
	r := c.Rng
	o := lab.DefaultOptions()
	o.NAccts = 8
	fee := func() uint64 { return r.PickU64([]uint64{1, 7, 10, 100, 1000, 24, 25_000}) }
	wd, bd := lab.Denom, lab.Denom
	switch r.Intn(4) {
	case 0:
		bd = lab.Denom2
	case 1:
		wd = lab.Denom2
	}
	o.Wrk = wrkchaintypes.NewParams(fee(), fee(), fee(), wd, 3, 40)
	o.Beacon = beacontypes.NewParams(fee(), fee(), fee(), bd, 3, 40)
	if r.Chance(40) { // equal fees across the modules
		o.Beacon.FeeRegister, o.Beacon.FeeRecord, o.Beacon.FeePurchaseStorage = o.Wrk.FeeRegister, o.Wrk.FeeRecord, o.Wrk.FeePurchaseStorage
	}
	hugeFees := r.Chance(12)
	if hugeFees {
		// per-slot fees of an 18-decimal fee denomination times large slot counts: products beyond 2^63
		// and 2^64 (the owners hold 10^63 of that denomination, so the exact fee is affordable)
		wd, bd = lab.DenomBig, lab.DenomBig
		big := func() uint64 { return r.PickU64([]uint64{1 << 45, 1 << 50, 1 << 58, 1<<45 + 1}) }
		o.Wrk = wrkchaintypes.NewParams(fee(), fee(), big(), wd, 3, 1<<20+7)
		o.Beacon = beacontypes.NewParams(fee(), fee(), big(), bd, 3, 1<<20+7)
		c.Count("huge_fee_parameter_sets", 1)
	}
	// look-alike fee denominations: the modules' fee denominations spelled in upper case are valid,
	// DIFFERENT denominations which every account holds plenty of
	for _, d := range []string{strings.ToUpper(wd), strings.ToUpper(bd)} {
		if d != wd && d != bd && !containsStr(o.ExtraDenomsAll, d) {
			o.ExtraDenomsAll = append(o.ExtraDenomsAll, d)
		}
	}
	slots := func(lo, hi int) uint64 {
		if hugeFees && r.Chance(50) {
			return r.PickU64([]uint64{1<<19 + 1, 1 << 19, 1<<18 + 3, 1 << 14, 1<<6 + 1})
		}
		return uint64(r.Range(lo, hi))
	}
	o.Ent = enttypes.Params{EntSigners: lab.NewAcct(0).Addr.String(), Denom: lab.Denom, MinAccepts: 1, DecisionTimeLimit: 1000}
	o.Whitelist = []int{1, 2}
	// poor payers: balances around typical fees
	o.NativeBalOf = map[int]int64{5: int64(r.PickU64([]uint64{0, 5, 50, 1500, 30_000})), 6: int64(r.PickU64([]uint64{1, 20, 999, 26_000}))}
	e := NewEnv(c, o)
	defer e.L.Cleanup()
	g := NewGen(e)
	L := e.L
	ac := L.Accts
	grantee := ac[7]
	owners := []lab.Acct{ac[1], ac[2], ac[3], ac[5], ac[6]}

	// --- setup: registrations, grants, locked eFUND for accounts 1,2
	e.Block(time.Second,
		g.plan(ac[1], nil, &enttypes.MsgUndPurchaseOrder{Purchaser: ac[1].Addr.String(), Amount: sdk.NewInt64Coin(lab.Denom, int64(r.PickU64([]uint64{5, 500, 50_000, 5_000_000})))}),
		g.plan(ac[2], nil, &enttypes.MsgUndPurchaseOrder{Purchaser: ac[2].Addr.String(), Amount: sdk.NewInt64Coin(lab.Denom, 1_000_000)}))
	e.Block(time.Second,
		g.plan(ac[0], nil, &enttypes.MsgProcessUndPurchaseOrder{PurchaseOrderId: 1, Decision: enttypes.StatusAccepted, Signer: ac[0].Addr.String()}),
		g.plan(ac[0], nil, &enttypes.MsgProcessUndPurchaseOrder{PurchaseOrderId: 2, Decision: enttypes.StatusAccepted, Signer: ac[0].Addr.String()}))
	e.Block(time.Second)
	e.Block(time.Second)
	types := []string{sdk.MsgTypeURL(&wrkchaintypes.MsgRegisterWrkChain{}), sdk.MsgTypeURL(&wrkchaintypes.MsgRecordWrkChainBlock{}), sdk.MsgTypeURL(&wrkchaintypes.MsgPurchaseWrkChainStateStorage{}),
		sdk.MsgTypeURL(&beacontypes.MsgRegisterBeacon{}), sdk.MsgTypeURL(&beacontypes.MsgRecordBeaconTimestamp{}), sdk.MsgTypeURL(&beacontypes.MsgPurchaseBeaconStateStorage{}), sdk.MsgTypeURL(&banktypes.MsgSend{})}
	e.BeginBlock(time.Second)
	for _, ow := range owners {
		for _, t := range types {
			// owners 5,6 may be too poor to pay nothing: grants are free (no fee)
			e.Deliver(g.GrantPlan(ow, grantee, t))
		}
	}
	// the rich account 0 stands in for everybody's fees (x/feegrant): the granter is charged, yet the
	// statement binds admission to what the FEE PAYER can cover
	for _, ow := range owners {
		e.Deliver(g.FeeGrantPlan(ac[0], ow))
	}
	// registrations by rich owners (exact fee, DeliverTx does not check amounts)
	for rep := 0; rep < 2; rep++ { // two of each, so that one owner can address several registrations in one tx
		for _, ow := range owners[:3] {
			e.Deliver(g.plan(ow, sdk.NewCoins(sdk.NewCoin(wd, math.NewIntFromUint64(o.Wrk.FeeRegister))), g.WrkRegisterMsg(ow)))
			e.Deliver(g.plan(ow, sdk.NewCoins(sdk.NewCoin(bd, math.NewIntFromUint64(o.Beacon.FeeRegister))), g.BeaconRegisterMsg(ow)))
		}
	}
	e.EndBlock()

	// a group (sole member a3, threshold 1) whose policy account (32 byte address) owns registrations
	var policy sdk.AccAddress
	{
		pol := group.NewThresholdDecisionPolicy("1", 5*time.Second, 0)
		m, err := group.NewMsgCreateGroupWithPolicy(ac[3].Addr.String(), []group.MemberRequest{{Address: ac[3].Addr.String(), Weight: "1"}}, "", "", false, pol)
		if err == nil {
			e.Block(time.Second, &TxPlan{Spec: lab.TxSpec{Msgs: []sdk.Msg{m}, Signers: []lab.Acct{ac[3]}, Gas: 1_000_000}, Desc: "CreateGroupWithPolicy"})
			res, qerr := L.App.GroupKeeper.GroupPoliciesByAdmin(sdk.WrapSDKContext(L.Ctx()), &group.QueryGroupPoliciesByAdminRequest{Admin: ac[3].Addr.String()})
			if qerr == nil && len(res.GroupPolicies) > 0 {
				policy, _ = sdk.AccAddressFromBech32(res.GroupPolicies[0].Address)
				e.Block(time.Second, g.plan(ac[3], nil, banktypes.NewMsgSend(ac[3].Addr, policy, sdk.NewCoins(sdk.NewInt64Coin(lab.Denom, 50_000_000), sdk.NewInt64Coin(lab.Denom2, 50_000_000)))))
			}
		}
	}

	ntx := r.Range(60, 90)
	var phantom *feeOracle // fee parameters of the last governance update that was rolled back
	for t := 0; t < ntx && e.Halted == ""; t++ {
		obs := e.Last
		fo := feeOracle{obs.WrkParams, obs.BeaconParams}
		// occasional fee parameter change through governance - of either module, and sometimes in a
		// proposal whose LATER message fails, so that x/gov discards the update: the fees in force
		// stay the stored ones, and the discarded ones (remembered as phantom) must never be charged
		if r.Chance(5) {
			var upd sdk.Msg
			ph := feeOracle{obs.WrkParams, obs.BeaconParams}
			if r.Bool() {
				p := obs.WrkParams
				p.FeeRegister, p.FeeRecord, p.FeePurchaseStorage = fee(), fee(), fee()
				upd, ph.wrk = &wrkchaintypes.MsgUpdateParams{Authority: lab.GovAuthority(), Params: p}, p
			} else {
				p := obs.BeaconParams
				p.FeeRegister, p.FeeRecord, p.FeePurchaseStorage = fee(), fee(), fee()
				upd, ph.beacon = &beacontypes.MsgUpdateParams{Authority: lab.GovAuthority(), Params: p}, p
			}
			if r.Chance(45) {
				failing := banktypes.NewMsgSend(lab.ModAddr("gov"), ac[1].Addr, sdk.NewCoins(sdk.NewCoin(lab.Denom, math.NewIntWithDecimal(1, 40))))
				e.Gov("fees + failing message (rolled back)", upd, failing)
				phantom = &ph
				c.Count("rolled_back_fee_updates", 1)
			} else {
				// a record of a1 priced exactly under the fees in force NOW, as it would wait in a mempool
				var waiting []byte
				var wspec lab.TxSpec
				var wwant sdk.Coins
				var wm sdk.Msg
				if _, isW := upd.(*wrkchaintypes.MsgUpdateParams); isW {
					if w := pickOwnedWrk(obs, ac[1], r); w != nil {
						wm = &wrkchaintypes.MsgRecordWrkChainBlock{WrkchainId: w.WrkchainId, Height: w.Lastblock + 1, BlockHash: g.hash(64), Owner: ac[1].Addr.String()}
					}
				} else if b := pickOwnedBeacon(obs, ac[1], r); b != nil {
					wm = &beacontypes.MsgRecordBeaconTimestamp{BeaconId: b.BeaconId, Hash: g.hash(64), SubmitTime: uint64(L.Time.Unix()), Owner: ac[1].Addr.String()}
				}
				if wm != nil {
					wwant, _, _ = fo.expected([]sdk.Msg{wm})
					wspec = lab.TxSpec{Msgs: []sdk.Msg{wm}, Signers: []lab.Acct{ac[1]}, Fee: wwant, Gas: 2_000_000}
					if bz, err := L.BuildTx(wspec); err == nil && L.Check(bz).Code == 0 {
						waiting = bz
					}
				}
				// an exact-fee record of another owner is DELIVERED in the block whose EndBlock executes the
				// update (whatever a decorator remembers per block height is then stale for the CheckTx
				// calls that follow at the same height)
				if ow2 := ac[2]; true {
					var dm sdk.Msg
					if w := pickOwnedWrk(obs, ow2, r); w != nil && r.Bool() {
						dm = &wrkchaintypes.MsgRecordWrkChainBlock{WrkchainId: w.WrkchainId, Height: w.Lastblock + 1, BlockHash: g.hash(64), Owner: ow2.Addr.String()}
					} else if b := pickOwnedBeacon(obs, ow2, r); b != nil {
						dm = &beacontypes.MsgRecordBeaconTimestamp{BeaconId: b.BeaconId, Hash: g.hash(64), SubmitTime: uint64(L.Time.Unix()), Owner: ow2.Addr.String()}
					}
					if dm != nil {
						dw, _, _ := fo.expected([]sdk.Msg{dm})
						e.GovExecBlockTxs = []*TxPlan{{Spec: lab.TxSpec{Msgs: []sdk.Msg{dm}, Signers: []lab.Acct{ow2}, Fee: dw, Gas: 2_000_000}, Desc: "delivered in the block that executes the fee update: " + descMsgs([]sdk.Msg{dm})}}
					}
				}
				if e.Gov("fees", upd) {
					c.Count("fee_updates_applied", 1)
					// straight after the update: a fresh CheckTx of a record priced with the OLD fee
					if wm != nil && e.Halted == "" {
						now := feeOracle{e.Last.WrkParams, e.Last.BeaconParams}
						if nw, _, _ := now.expected([]sdk.Msg{wm}); !nw.IsEqual(wwant) {
							if bz2, err := L.BuildTx(wspec); err == nil && L.Check(bz2).Code == 0 {
								e.BeginBlock(time.Second)
								resp := e.DeliverRaw(&TxPlan{Spec: wspec, Desc: "old-fee record checked right after the update: " + descMsgs(wspec.Msgs)}, bz2)
								e.EndBlock()
								if resp.Code == 0 {
									c.Violate("admitted-with-wrong-fee", "stale-after-fee-update", "right after a governance fee update a record offering the previous fee %s was admitted by CheckTx and executed; the current parameters price it at %s", wwant, nw)
								}
								waiting = nil
							}
						}
					}
					if waiting != nil && e.Halted == "" {
						now := feeOracle{e.Last.WrkParams, e.Last.BeaconParams}
						nwant, _, _ := now.expected([]sdk.Msg{wm})
						if !nwant.IsEqual(wwant) {
							c.Count("mempool_rechecks_after_fee_update", 1)
							if L.Recheck(waiting).Code == 0 {
								e.BeginBlock(time.Second)
								resp := e.DeliverRaw(&TxPlan{Spec: wspec, Desc: "waiting in the mempool since before the fee update: " + descMsgs(wspec.Msgs)}, waiting)
								e.EndBlock()
								if resp.Code == 0 {
									c.Violate("admitted-with-wrong-fee", "recheck-after-fee-update", "a record admitted before a governance fee update (offering %s) survived the mempool re-check after the update and was executed; the current parameters price it at %s", wwant, nwant)
								}
							}
						}
					}
				}
			}
			continue
		}
		// --- message multiset
		owner := owners[r.Weighted([]int{30, 25, 20, 15, 10})]
		nm := r.Weighted([]int{45, 30, 15, 10}) + 1
		var msgs []sdk.Msg
		var shape []string
		for i := 0; i < nm; i++ {
			switch k := r.Weighted([]int{10, 25, 15, 10, 25, 15, 8}); k {
			case 0:
				msgs = append(msgs, g.WrkRegisterMsg(owner))
				shape = append(shape, "Wreg")
			case 1, 2:
				w := pickOwnedWrk(obs, owner, r)
				if w == nil {
					msgs = append(msgs, g.WrkRegisterMsg(owner))
					shape = append(shape, "Wreg")
					continue
				}
				if k == 1 {
					h := w.Lastblock + 1 + uint64(countRec(msgs, w.WrkchainId))
					msgs = append(msgs, &wrkchaintypes.MsgRecordWrkChainBlock{WrkchainId: w.WrkchainId, Height: h, BlockHash: g.hash(64), Owner: owner.Addr.String()})
					shape = append(shape, "Wrec")
				} else {
					msgs = append(msgs, &wrkchaintypes.MsgPurchaseWrkChainStateStorage{WrkchainId: w.WrkchainId, Number: slots(1, 3), Owner: owner.Addr.String()})
					shape = append(shape, "Wbuy")
				}
			case 3:
				msgs = append(msgs, g.BeaconRegisterMsg(owner))
				shape = append(shape, "Breg")
			case 4, 5:
				b := pickOwnedBeacon(obs, owner, r)
				if b == nil {
					msgs = append(msgs, g.BeaconRegisterMsg(owner))
					shape = append(shape, "Breg")
					continue
				}
				if k == 4 {
					msgs = append(msgs, &beacontypes.MsgRecordBeaconTimestamp{BeaconId: b.BeaconId, Hash: g.hash(64), SubmitTime: uint64(L.Time.Unix()), Owner: owner.Addr.String()})
					shape = append(shape, "Brec")
				} else {
					msgs = append(msgs, &beacontypes.MsgPurchaseBeaconStateStorage{BeaconId: b.BeaconId, Number: slots(1, 3), Owner: owner.Addr.String()})
					shape = append(shape, "Bbuy")
				}
			default:
				msgs = append(msgs, banktypes.NewMsgSend(owner.Addr, ac[4].Addr, sdk.NewCoins(sdk.NewInt64Coin(lab.Denom2, 1))))
				shape = append(shape, "send")
			}
		}
		// often repeat the kind of the first operation (e.g. two storage purchases in one tx)
		if r.Chance(30) && len(msgs) < 4 {
			switch x := msgs[0].(type) {
			case *wrkchaintypes.MsgPurchaseWrkChainStateStorage:
				msgs = append(msgs, &wrkchaintypes.MsgPurchaseWrkChainStateStorage{WrkchainId: x.WrkchainId, Number: slots(1, 4), Owner: x.Owner})
				shape = append(shape, "Wbuy")
			case *beacontypes.MsgPurchaseBeaconStateStorage:
				msgs = append(msgs, &beacontypes.MsgPurchaseBeaconStateStorage{BeaconId: x.BeaconId, Number: slots(1, 4), Owner: x.Owner})
				shape = append(shape, "Bbuy")
			case *beacontypes.MsgRecordBeaconTimestamp:
				msgs = append(msgs, &beacontypes.MsgRecordBeaconTimestamp{BeaconId: x.BeaconId, Hash: g.hash(64), SubmitTime: x.SubmitTime + 1, Owner: x.Owner})
				shape = append(shape, "Brec")
			}
		}
		// interleaved storage purchases for two registrations of one owner (A, B, A / A, B, B, A, with
		// different slot counts): the fee is the sum over ALL of them, in whatever order they appear
		if r.Chance(7) {
			var ws []uint64
			for _, w := range obs.Wrk {
				if ownerHex(w.Owner) == ownerHex(owner.Addr.String()) {
					ws = append(ws, w.WrkchainId)
				}
			}
			var bs []uint64
			for _, b := range obs.Beacons {
				if ownerHex(b.Owner) == ownerHex(owner.Addr.String()) {
					bs = append(bs, b.BeaconId)
				}
			}
			pat := [][]int{{0, 1, 0}, {0, 1, 1, 0}, {1, 0, 1}, {0, 1, 0, 1}}[r.Intn(4)]
			if len(ws) >= 2 && (len(bs) < 2 || r.Bool()) {
				msgs, shape = nil, nil
				for _, k := range pat {
					msgs = append(msgs, &wrkchaintypes.MsgPurchaseWrkChainStateStorage{WrkchainId: ws[k], Number: slots(1, 5), Owner: owner.Addr.String()})
					shape = append(shape, "Wbuy")
				}
				shape = append(shape, "interleaved")
			} else if len(bs) >= 2 {
				msgs, shape = nil, nil
				for _, k := range pat {
					msgs = append(msgs, &beacontypes.MsgPurchaseBeaconStateStorage{BeaconId: bs[k], Number: slots(1, 5), Owner: owner.Addr.String()})
					shape = append(shape, "Bbuy")
				}
				shape = append(shape, "interleaved")
			}
		}
		for _, m := range msgs {
			setOwnerExact(m, owner)
		}
		sort.Strings(shape)
		// --- nesting
		signer := owner
		nesting := "top"
		txMsgs := msgs
		switch r.Weighted([]int{60, 20, 10, 10}) {
		case 1:
			txMsgs = []sdk.Msg{WrapExec(grantee, msgs, 1)}
			signer, nesting = grantee, "exec1"
		case 2:
			txMsgs = []sdk.Msg{WrapExec(grantee, msgs, 2+r.Intn(2))}
			signer, nesting = grantee, "exec2-3"
		case 3: // partially nested: first message nested, rest top-level signed by... needs one signer: nest all but keep a top-level op of the grantee
			if w := pickOwnedWrk(obs, grantee, r); w != nil {
				own := &wrkchaintypes.MsgRecordWrkChainBlock{WrkchainId: w.WrkchainId, Height: w.Lastblock + 1, BlockHash: g.hash(64), Owner: grantee.Addr.String()}
				txMsgs = []sdk.Msg{own, WrapExec(grantee, msgs, 1)}
			} else {
				txMsgs = []sdk.Msg{g.WrkRegisterMsg(grantee), WrapExec(grantee, msgs, 1)}
				setOwnerExact(txMsgs[0], grantee)
			}
			signer, nesting = grantee, "top+exec"
		}
		if policy != nil && r.Chance(8) {
			// operations owned by the group policy account, executed through a proposal with Exec_TRY
			pacct := lab.Acct{Addr: policy}
			var gm []sdk.Msg
			if r.Bool() {
				gm = append(gm, g.WrkRegisterMsg(pacct))
			} else {
				gm = append(gm, g.BeaconRegisterMsg(pacct))
			}
			for _, m := range gm {
				setOwnerExact(m, pacct)
			}
			sp, err := group.NewMsgSubmitProposal(policy.String(), []string{ac[3].Addr.String()}, gm, "", group.Exec_EXEC_TRY, "t", "s")
			if err == nil {
				txMsgs = []sdk.Msg{sp}
				signer, nesting = ac[3], "group-exec-try"
				shape = []string{"group:" + msgName(gm[0])}
			}
		}
		// a second signer contributing an unrelated transfer and named as the explicit fee payer: the
		// fee - and the question whether it can be covered - is then that account's
		signers := []lab.Acct{signer}
		payer := signer
		if nesting != "group-exec-try" && r.Chance(9) {
			co := ac[r.Intn(len(ac))]
			if !co.Addr.Equals(signer.Addr) {
				txMsgs = append(append([]sdk.Msg{}, txMsgs...), banktypes.NewMsgSend(co.Addr, ac[4].Addr, sdk.NewCoins(sdk.NewInt64Coin(lab.DenomBig, 1))))
				signers = append(signers, co)
				payer = co
				nesting += "/explicit-payer"
				c.Count("explicit_payer_txs", 1)
			}
		}
		leaves, nestedFlags := Flatten(txMsgs)
		want, nW, nB := fo.expected(leaves)
		// --- fee set
		var offered sdk.Coins
		rel := ""
		opLeaves := filterMsgs(leaves, func(m sdk.Msg) bool { return isWrkMsg(m) || isBeaconMsg(m) })
		lookAlike := func(cs sdk.Coins) sdk.Coins {
			out := sdk.NewCoins()
			for _, cn := range cs {
				out = out.Add(sdk.NewCoin(strings.ToUpper(cn.Denom), cn.Amount))
			}
			return out
		}
		switch r.Weighted([]int{34, 6, 10, 10, 8, 8, 4, 4, 10, 6, 3, 3}) {
		case 10: // the exact amounts, in the look-alike denominations only
			offered, rel = lookAlike(want), "look-alike-denom-only"
			if len(want) == 0 {
				rel = "exact"
			}
		case 11: // the exact amounts in the look-alike denominations next to a wrong amount in the real ones
			offered, rel = lookAlike(want).Add(scaleCoins(want, 1, 2)...), "look-alike-denom+lower"
			if r.Bool() {
				offered, rel = lookAlike(want).Add(want.Add(pickCoinOf(want, r))...), "look-alike-denom+higher"
			}
			if offered.AmountOf(wd).Equal(want.AmountOf(wd)) && offered.AmountOf(bd).Equal(want.AmountOf(bd)) {
				rel = "exact"
			}
		case 8: // everything but one operation's fee (any one)
			offered, rel = want, "exact"
			if len(opLeaves) > 1 {
				k := r.Intn(len(opLeaves))
				rest := append(append([]sdk.Msg{}, opLeaves[:k]...), opLeaves[k+1:]...)
				offered, _, _ = fo.expected(rest)
				rel = "minus-one-op"
				if offered.IsEqual(want) {
					rel = "exact"
				}
			}
		case 9: // one operation's fee only
			offered, rel = want, "exact"
			if len(opLeaves) > 1 {
				offered, _, _ = fo.expected(opLeaves[r.Intn(len(opLeaves)):][:1])
				rel = "one-op-only"
				if offered.IsEqual(want) {
					rel = "exact"
				}
			}
		case 0:
			offered, rel = want, "exact"
		case 1:
			offered, rel = sdk.NewCoins(), "missing"
		case 2:
			offered, rel = scaleCoins(want, 1, 2), "lower"
			if offered.IsEqual(want) {
				rel = "exact"
			}
		case 3:
			offered, rel = want.Add(pickCoinOf(want, r)), "higher"
		case 4: // only one module's sum (interesting when both modules appear)
			wOnly, _, _ := fo.expected(filterMsgs(leaves, isWrkMsg))
			offered, rel = wOnly, "wrk-sum-only"
			if wOnly.IsEqual(want) {
				rel = "exact"
			}
		case 5:
			offered, rel = scaleCoins(want, 1, 3), "lower"
			if offered.IsEqual(want) {
				rel = "exact"
			}
		case 6:
			offered, rel = want.Add(sdk.NewInt64Coin(lab.DenomBig, 1)), "exact"
		default:
			offered, rel = sdk.NewCoins(sdk.NewInt64Coin(lab.DenomBig, 5)), "missing"
		}
		// what fixed-width arithmetic would make of the exact fee: the sum modulo 2^64 / 2^63
		for _, cn := range want {
			if cn.Amount.BigInt().BitLen() > 63 && r.Chance(60) {
				mod := new(big.Int).Lsh(big.NewInt(1), uint([]int{64, 63}[r.Intn(2)]))
				w := new(big.Int).Mod(cn.Amount.BigInt(), mod)
				offered = sdk.NewCoins(sdk.NewCoin(cn.Denom, math.NewIntFromBigInt(w)))
				rel = "wrapped-fee"
				if offered.IsEqual(want) {
					rel = "exact"
				}
				break
			}
		}
		if phantom != nil && r.Chance(30) { // what the operations would cost under the discarded parameters
			offered, _, _ = phantom.expected(leaves)
			rel = "rolled-back-proposal-fee"
			if offered.IsEqual(want) {
				rel = "exact"
			}
		}
		extra := "no-extra"
		if r.Chance(30) {
			offered = offered.Add(sdk.NewInt64Coin(pickExtraDenom(wd, bd), int64(r.Range(1, 9))))
			extra = "extra-denom"
		}
		for _, cn := range offered {
			if cn.Denom != wd && cn.Denom != bd {
				extra = "extra-denom"
			}
		}
		spec := lab.TxSpec{Msgs: txMsgs, Signers: signers, Fee: offered, Gas: 2_000_000}
		if len(signers) > 1 {
			spec.Payer = payer.Addr
		}
		granted := false
		if nesting != "group-exec-try" && !payer.Addr.Equals(ac[0].Addr) && r.Chance(12) {
			for _, ow := range owners {
				if ow.Addr.Equals(payer.Addr) {
					spec.Granter, granted = ac[0].Addr, true
					c.Count("fee_granter_txs", 1)
				}
			}
		}
		bz, err := L.BuildTx(spec)
		if err != nil {
			continue
		}
		payerPre := obs.Accts[payer.Addr.String()]
		chk := L.Check(bz)
		c.Count("checktx", 1)
		admitted := chk.Code == 0
		desc := fmt.Sprintf("%s by a%d fee=%s (exact %s)", descMsgs(txMsgs), g.idx(signer), offered, want)
		if len(signers) > 1 {
			desc += fmt.Sprintf(" payer=a%d", g.idx(payer))
		}
		if granted {
			desc += " granter=a0"
			nesting += "/granter"
		}
		e.tracef("checktx %s -> code=%d %s", desc, chk.Code, firstN(chk.Log, 100))
		c.Distinct(fmt.Sprintf("%s/%s/%s/%s/admitted=%v", strings.Join(shape, "+"), nesting, rel, extra, admitted))
		if !admitted {
			if rel == "exact" && nW+nB > 0 {
				c.Count("rejected_with_exact_fee", 1)
			}
			continue
		}
		c.Count("admitted", 1)
		// deliver in the next block: were the operations executed?
		e.BeginBlock(time.Second)
		resp := e.DeliverRaw(&TxPlan{Spec: spec, Desc: desc}, bz)
		e.EndBlock()
		if resp.Code != 0 || nW+nB == 0 {
			continue
		}
		c.Count("admitted_executed", 1)
		c.Nontrivial()
		// the oracle
		anyNested := false
		for i, lf := range leaves {
			if (isWrkMsg(lf) || isBeaconMsg(lf)) && nestedFlags[i] {
				anyNested = true
			}
		}
		// classify the witness. The two recorded findings are exactly: (a) operations nested in MsgExec
		// are not priced at all while every module's TOP-LEVEL operations are priced exactly, (b) with
		// a shared fee denomination and equal per-module sums the fee is paid once. Anything else
		// (e.g. a top-level operation admitted at the wrong price) is a new violation.
		var topLeaves []sdk.Msg
		for i, lf := range leaves {
			if !nestedFlags[i] {
				topLeaves = append(topLeaves, lf)
			}
		}
		topW, tW, _ := fo.expected(filterMsgs(topLeaves, isWrkMsg))
		topB, _, tB := fo.expected(filterMsgs(topLeaves, isBeaconMsg))
		topOK := (tW == 0 || offered.AmountOf(wd).Equal(topW.AmountOf(wd))) && (tB == 0 || offered.AmountOf(bd).Equal(topB.AmountOf(bd)))
		sig := "top-level-op-mispriced"
		switch {
		case anyNested && topOK && nesting == "group-exec-try":
			sig = "group-proposal-ops-unpriced"
		case anyNested && topOK:
			sig = "nested-ops-unpriced"
		case !anyNested && tW > 0 && tB > 0 && wd == bd && topOK:
			sig = "shared-denom-equal-sums-paid-once"
		}
		if extra == "extra-denom" {
			sig += "/extra-denom"
		}
		denoms := map[string]bool{}
		if nW > 0 {
			denoms[wd] = true
		}
		if nB > 0 {
			denoms[bd] = true
		}
		for d := range denoms {
			if !offered.AmountOf(d).Equal(want.AmountOf(d)) {
				c.Violate("admitted-with-wrong-fee", sig, "CheckTx admitted and the next block executed %d WRKChain + %d BEACON operations (%s) offering %s%s; the current parameters price them at %s%s (wrk %v, beacon %v) | %s",
					nW, nB, descMsgs(txMsgs), offered.AmountOf(d), d, want.AmountOf(d), d, fo.wrk, fo.beacon, desc)
			}
			have := payerPre.Spendable.AmountOf(d)
			if d == obs.EntParams.Denom {
				have = have.Add(payerPre.Locked)
			}
			// evaluated only when the fee itself was right (a wrong admitted fee is reported above)
			if offered.AmountOf(d).Equal(want.AmountOf(d)) && have.LT(want.AmountOf(d)) {
				c.Violate("admitted-payer-cannot-cover", sig, "payer a%d had %s%s liquid+locked at admission, operations cost %s%s | %s", g.idx(payer), have, d, want.AmountOf(d), d, desc)
			}
		}
	}
	noteHalt(e)
	if c.Case < 2 {
		c.Sample(map[string]interface{}{"params": fmt.Sprintf("wrk=%v beacon=%v", o.Wrk, o.Beacon), "trace_tail": e.TraceTail(20)})
	}
}

func setOwnerExact(m sdk.Msg, a lab.Acct) {
	s := a.Addr.String()
	switch x := m.(type) {
	case *wrkchaintypes.MsgRegisterWrkChain:
		x.Owner = s
	case *wrkchaintypes.MsgRecordWrkChainBlock:
		x.Owner = s
	case *wrkchaintypes.MsgPurchaseWrkChainStateStorage:
		x.Owner = s
	case *beacontypes.MsgRegisterBeacon:
		x.Owner = s
	case *beacontypes.MsgRecordBeaconTimestamp:
		x.Owner = s
	case *beacontypes.MsgPurchaseBeaconStateStorage:
		x.Owner = s
	}
}

func countRec(msgs []sdk.Msg, id uint64) int {
	n := 0
	for _, m := range msgs {
		if x, ok := m.(*wrkchaintypes.MsgRecordWrkChainBlock); ok && x.WrkchainId == id {
			n++
		}
	}
	return n
}

func pickOwnedWrk(o *lab.Obs, a lab.Acct, r *fw.Rand) *wrkchaintypes.WrkChain {
	var c []int
	for i, w := range o.Wrk {
		if ownerHex(w.Owner) == ownerHex(a.Addr.String()) {
			c = append(c, i)
		}
	}
	if len(c) == 0 {
		return nil
	}
	return &o.Wrk[c[r.Intn(len(c))]]
}
func pickOwnedBeacon(o *lab.Obs, a lab.Acct, r *fw.Rand) *beacontypes.Beacon {
	var c []int
	for i, b := range o.Beacons {
		if ownerHex(b.Owner) == ownerHex(a.Addr.String()) {
			c = append(c, i)
		}
	}
	if len(c) == 0 {
		return nil
	}
	return &o.Beacons[c[r.Intn(len(c))]]
}

func scaleCoins(cs sdk.Coins, num, den int64) sdk.Coins {
	out := sdk.NewCoins()
	for _, c := range cs {
		a := c.Amount.MulRaw(num).QuoRaw(den)
		if a.IsPositive() {
			out = out.Add(sdk.NewCoin(c.Denom, a))
		}
	}
	return out
}

func pickCoinOf(cs sdk.Coins, r *fw.Rand) sdk.Coin {
	if len(cs) == 0 {
		return sdk.NewInt64Coin(lab.Denom, 1)
	}
	c := cs[r.Intn(len(cs))]
	return sdk.NewCoin(c.Denom, math.NewInt(int64(r.Range(1, 50))))
}

func pickExtraDenom(wd, bd string) string {
	for _, d := range []string{lab.DenomBig, lab.Denom2, lab.Denom} {
		if d != wd && d != bd {
			return d
		}
	}
	return lab.DenomBig
}

func filterMsgs(ms []sdk.Msg, f func(sdk.Msg) bool) []sdk.Msg {
	var out []sdk.Msg
	for _, m := range ms {
		if f(m) {
			out = append(out, m)
		}
	}
	return out
}

func containsStr(xs []string, x string) bool {
	for _, y := range xs {
		if y == x {
			return true
		}
	}
	return false
}
