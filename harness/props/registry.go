package props

import (
	"fmt"
	"github.com/cosmos/cosmos-sdk/types/query"
	"math/big"
	"sort"
	"strings"

	abci "github.com/cometbft/cometbft/abci/types"
	sdk "github.com/cosmos/cosmos-sdk/types"

	"verifharness/lab"

	beacontypes "github.com/unification-com/mainchain/x/beacon/types"
	wrkchaintypes "github.com/unification-com/mainchain/x/wrkchain/types"
)

// RegistryModel is the reference model for WRKChain and BEACON registries (C07, C08, C09),
// written from the property statements. It never predicts success; it takes the observed result
// and checks "succeeded ⇒ precondition held ∧ post-state = model" and "failed ⇒ no change".

type regRecord struct {
	Key     uint64 // height (wrk) / timestamp id (beacon)
	Content string // canonical rendering of everything a query must return
}

type regEntry struct {
	ID      uint64
	Owner   string // hex of decoded address
	Fields  string // moniker|name|genesis|type
	RegTime uint64
	Limit   uint64
	Last    uint64      // last recorded height / last timestamp id
	Total   uint64      // records ever accepted
	InState []regRecord // retention set, ascending
	All     []regRecord // every record ever accepted (bounded by workload size)
	Pruned  int
	Bought  int
}

type RegistryModel struct {
	Kind    string // "wrk" | "beacon"
	Next    uint64
	Entries map[uint64]*regEntry
	order   []uint64
}

func NewRegistryModel(kind string, startID uint64) *RegistryModel {
	return &RegistryModel{Kind: kind, Next: startID, Entries: map[uint64]*regEntry{}}
}

func ownerHex(bech string) string {
	a, err := sdk.AccAddressFromBech32(bech)
	if err != nil {
		// upper-case spelling decodes too; anything else is reported as-is
		a2, err2 := sdk.AccAddressFromBech32(strings.ToLower(bech))
		if err2 != nil {
			return "!" + bech
		}
		a = a2
	}
	return fmt.Sprintf("%x", a.Bytes())
}

func wrkContent(b wrkchaintypes.WrkChainBlock) string {
	return fmt.Sprintf("h=%d|bh=%s|ph=%s|h1=%s|h2=%s|h3=%s|st=%d", b.Height, b.Blockhash, b.Parenthash, b.Hash1, b.Hash2, b.Hash3, b.SubTime)
}
func beaconContent(t beacontypes.BeaconTimestamp) string {
	return fmt.Sprintf("id=%d|t=%d|h=%s", t.TimestampId, t.SubmitTime, t.Hash)
}

// applySuccess applies the leaves of a tx that succeeded. Returns violations of the entitlement /
// precondition direction ("succeeded ⇒ …").
func (m *RegistryModel) applySuccess(e *Env, leaves []sdk.Msg, nested []bool, blockTime uint64, defLimit, maxLimit uint64, viol func(rule, sig, msg string)) {
	for i, lf := range leaves {
		nest := "top"
		if nested[i] {
			nest = "nested"
		}
		switch x := lf.(type) {
		case *wrkchaintypes.MsgRegisterWrkChain:
			if m.Kind != "wrk" {
				continue
			}
			m.register(x.Owner, x.Moniker+"|"+x.Name+"|"+x.GenesisHash+"|"+x.BaseType, blockTime, defLimit)
			if len(x.Moniker) == 0 || len(x.Moniker) > 64 || len(x.Name) > 128 || len(x.GenesisHash) > 66 {
				viol("register-field-limits", nest, fmt.Sprintf("registration accepted with out-of-limit fields: moniker %d name %d genesis %d bytes", len(x.Moniker), len(x.Name), len(x.GenesisHash)))
			}
		case *beacontypes.MsgRegisterBeacon:
			if m.Kind != "beacon" {
				continue
			}
			m.register(x.Owner, x.Moniker+"|"+x.Name, blockTime, defLimit)
			if len(x.Moniker) == 0 || len(x.Moniker) > 64 || len(x.Name) > 128 {
				viol("register-field-limits", nest, fmt.Sprintf("registration accepted with out-of-limit fields: moniker %d name %d bytes", len(x.Moniker), len(x.Name)))
			}
		case *wrkchaintypes.MsgRecordWrkChainBlock:
			if m.Kind != "wrk" {
				continue
			}
			en := m.Entries[x.WrkchainId]
			if en == nil {
				viol("record-unknown-id", nest, fmt.Sprintf("record for unknown wrkchain %d succeeded", x.WrkchainId))
				continue
			}
			if ownerHex(x.Owner) != en.Owner {
				viol("record-by-non-owner", nest, fmt.Sprintf("wrkchain %d owned by %s recorded by %s", x.WrkchainId, en.Owner, ownerHex(x.Owner)))
			}
			if x.Height <= en.Last {
				viol("record-height-not-above-last", nest, fmt.Sprintf("wrkchain %d accepted height %d with last recorded %d", x.WrkchainId, x.Height, en.Last))
			}
			for _, h := range []string{x.BlockHash, x.ParentHash, x.Hash1, x.Hash2, x.Hash3} {
				if len(h) > 66 {
					viol("record-field-limits", nest, fmt.Sprintf("hash of %d bytes accepted", len(h)))
				}
			}
			c := wrkContent(wrkchaintypes.WrkChainBlock{Height: x.Height, Blockhash: x.BlockHash, Parenthash: x.ParentHash, Hash1: x.Hash1, Hash2: x.Hash2, Hash3: x.Hash3, SubTime: blockTime})
			en.addRecord(x.Height, c)
			en.Last = x.Height
		case *beacontypes.MsgRecordBeaconTimestamp:
			if m.Kind != "beacon" {
				continue
			}
			en := m.Entries[x.BeaconId]
			if en == nil {
				viol("record-unknown-id", nest, fmt.Sprintf("record for unknown beacon %d succeeded", x.BeaconId))
				continue
			}
			if ownerHex(x.Owner) != en.Owner {
				viol("record-by-non-owner", nest, fmt.Sprintf("beacon %d owned by %s recorded by %s", x.BeaconId, en.Owner, ownerHex(x.Owner)))
			}
			if len(x.Hash) > 66 {
				viol("record-field-limits", nest, fmt.Sprintf("hash of %d bytes accepted", len(x.Hash)))
			}
			id := en.Last + 1 // consecutive from 1 in submission order
			c := beaconContent(beacontypes.BeaconTimestamp{TimestampId: id, SubmitTime: x.SubmitTime, Hash: x.Hash})
			en.addRecord(id, c)
			en.Last = id
		case *wrkchaintypes.MsgPurchaseWrkChainStateStorage:
			if m.Kind != "wrk" {
				continue
			}
			m.purchase(x.WrkchainId, x.Number, x.Owner, maxLimit, nest, viol)
		case *beacontypes.MsgPurchaseBeaconStateStorage:
			if m.Kind != "beacon" {
				continue
			}
			m.purchase(x.BeaconId, x.Number, x.Owner, maxLimit, nest, viol)
		}
	}
}

func (m *RegistryModel) register(owner, fields string, t, defLimit uint64) {
	en := &regEntry{ID: m.Next, Owner: ownerHex(owner), Fields: fields, RegTime: t, Limit: defLimit}
	m.Entries[en.ID] = en
	m.order = append(m.order, en.ID)
	m.Next++
}

func (en *regEntry) addRecord(key uint64, content string) {
	r := regRecord{key, content}
	en.All = append(en.All, r)
	en.InState = append(en.InState, r)
	en.Total++
	// the oldest is pruned one at a time as new ones arrive
	if uint64(len(en.InState)) > en.Limit && len(en.InState) > 1 {
		en.InState = en.InState[1:]
		en.Pruned++
	}
}

func (m *RegistryModel) purchase(id, n uint64, owner string, maxLimit uint64, nest string, viol func(rule, sig, msg string)) {
	en := m.Entries[id]
	if en == nil {
		viol("purchase-unknown-id", nest, fmt.Sprintf("purchase for unknown id %d succeeded", id))
		return
	}
	if ownerHex(owner) != en.Owner {
		viol("purchase-by-non-owner", nest, fmt.Sprintf("%s %d owned by %s, storage purchased by %s", m.Kind, id, en.Owner, ownerHex(owner)))
	}
	if n == 0 {
		viol("purchase-zero", nest, "purchase of 0 slots succeeded")
	}
	sum := new(big.Int).Add(new(big.Int).SetUint64(en.Limit), new(big.Int).SetUint64(n))
	if sum.Cmp(new(big.Int).SetUint64(maxLimit)) > 0 {
		viol("purchase-above-max", nest+magClass(n), fmt.Sprintf("%s %d: limit %d + purchased %d = %s exceeds maximum %d but the purchase succeeded", m.Kind, id, en.Limit, n, sum, maxLimit))
	}
	if sum.IsUint64() {
		en.Limit = sum.Uint64()
	} else {
		en.Limit = ^uint64(0) // model saturates; comparison below will flag the mismatch
	}
	en.Bought++
}

func magClass(n uint64) string {
	switch {
	case n >= 1<<63:
		return "/n>=2^63"
	case n >= 1<<32:
		return "/n>=2^32"
	}
	return "/small-n"
}

// Compare checks the observed registry state against the model (C07/C08/C09 state rules).
func (m *RegistryModel) Compare(e *Env, o *lab.Obs, viol func(rule, sig, msg string)) {
	type obsEntry struct {
		owner, fields           string
		regTime, last, num, low uint64
		limit                   uint64
		recs                    []regRecord
	}
	obs := map[uint64]obsEntry{}
	var ids []uint64
	var next uint64
	if m.Kind == "wrk" {
		next = o.NextWrk
		for _, w := range o.Wrk {
			oe := obsEntry{owner: ownerHex(w.Owner), fields: w.Moniker + "|" + w.Name + "|" + w.Genesis + "|" + w.Type, regTime: w.RegTime, last: w.Lastblock, num: w.NumBlocks, low: w.LowestHeight, limit: o.WrkLimit[w.WrkchainId]}
			for _, b := range o.WrkBlocks[w.WrkchainId] {
				oe.recs = append(oe.recs, regRecord{b.Height, wrkContent(b)})
			}
			obs[w.WrkchainId] = oe
			ids = append(ids, w.WrkchainId)
		}
	} else {
		next = o.NextBeacon
		for _, b := range o.Beacons {
			oe := obsEntry{owner: ownerHex(b.Owner), fields: b.Moniker + "|" + b.Name, regTime: b.RegTime, last: b.LastTimestampId, num: b.NumInState, low: b.FirstIdInState, limit: o.BeaconLimit[b.BeaconId]}
			for _, t := range o.BeaconTs[b.BeaconId] {
				oe.recs = append(oe.recs, regRecord{t.TimestampId, beaconContent(t)})
			}
			obs[b.BeaconId] = oe
			ids = append(ids, b.BeaconId)
		}
	}
	if next != m.Next {
		viol("next-id", m.Kind, fmt.Sprintf("next %s id is %d, model %d", m.Kind, next, m.Next))
	}
	if !sort.SliceIsSorted(ids, func(i, j int) bool { return ids[i] < ids[j] }) {
		viol("listing-order", m.Kind, fmt.Sprintf("registrations listed out of ascending id order: %v", ids))
	}
	if len(ids) != len(m.Entries) {
		viol("registration-set", m.Kind, fmt.Sprintf("%d registrations in state, model has %d (ids state=%v model=%v)", len(ids), len(m.Entries), ids, m.order))
	}
	for _, id := range m.order {
		en := m.Entries[id]
		oe, ok := obs[id]
		if !ok {
			viol("registration-missing", m.Kind, fmt.Sprintf("%s %d not in state", m.Kind, id))
			continue
		}
		if oe.owner != en.Owner {
			viol("owner-changed", m.Kind, fmt.Sprintf("%s %d owner is %s, registered by %s", m.Kind, id, oe.owner, en.Owner))
		}
		if oe.fields != en.Fields {
			viol("fields-changed", m.Kind, fmt.Sprintf("%s %d fields %q, submitted %q", m.Kind, id, oe.fields, en.Fields))
		}
		if oe.regTime != en.RegTime {
			viol("regtime-changed", m.Kind, fmt.Sprintf("%s %d reg time %d, registered at %d", m.Kind, id, oe.regTime, en.RegTime))
		}
		if oe.limit != en.Limit {
			viol("limit-mismatch", m.Kind, fmt.Sprintf("%s %d in-state limit %d, model %d (default at registration + successful purchases)", m.Kind, id, oe.limit, en.Limit))
			en.Limit = oe.limit // resynchronise so that one root cause is reported once
		}
		// retention set
		if !sameRecords(oe.recs, en.InState) {
			// C07's half: a record the retention limit still covers is gone, or a record still held
			// (even one that should have been pruned) no longer carries the submitted content
			have := map[uint64]string{}
			for _, r := range oe.recs {
				have[r.Key] = r.Content
			}
			for _, r := range en.InState {
				if _, ok := have[r.Key]; !ok {
					viol("record-lost-within-retention", m.Kind, fmt.Sprintf("%s %d (limit %d, %d recorded): record %d is among the newest %d but is no longer in state (state holds %s)", m.Kind, id, en.Limit, en.Total, r.Key, len(en.InState), keysOf(oe.recs)))
				}
			}
			for _, r := range en.All {
				if got, ok := have[r.Key]; ok && got != r.Content {
					viol("record-content", m.Kind, fmt.Sprintf("%s %d record %d is %q, submitted %q", m.Kind, id, r.Key, got, r.Content))
				}
			}
			viol("retention-set", m.Kind, fmt.Sprintf("%s %d (limit %d) holds %s, expected newest %d of %d recorded: %s", m.Kind, id, en.Limit, keysOf(oe.recs), len(en.InState), en.Total, keysOf(en.InState)))
			en.InState = append([]regRecord(nil), oe.recs...) // resynchronise
		} else {
			for i := range oe.recs {
				if oe.recs[i].Content != en.InState[i].Content {
					viol("record-content", m.Kind, fmt.Sprintf("%s %d record %d is %q, submitted %q", m.Kind, id, oe.recs[i].Key, oe.recs[i].Content, en.InState[i].Content))
				}
			}
		}
		// counters against what is actually queryable
		if oe.num != uint64(len(oe.recs)) {
			viol("counter-num-in-state", m.Kind, fmt.Sprintf("%s %d reports %d in state, %d queryable", m.Kind, id, oe.num, len(oe.recs)))
		}
		wantLow := uint64(0)
		if len(oe.recs) > 0 {
			wantLow = oe.recs[0].Key
		}
		if oe.low != wantLow {
			viol("counter-lowest", m.Kind, fmt.Sprintf("%s %d reports lowest/first in state %d, lowest queryable %d", m.Kind, id, oe.low, wantLow))
		}
		if oe.last != en.Last {
			viol("counter-last", m.Kind, fmt.Sprintf("%s %d reports last %d, model %d", m.Kind, id, oe.last, en.Last))
			en.Last = oe.last
		}
	}
}

func sameRecords(a, b []regRecord) bool {
	if len(a) != len(b) {
		return false
	}
	for i := range a {
		if a[i].Key != b[i].Key {
			return false
		}
	}
	return true
}

func keysOf(rs []regRecord) string {
	var ks []string
	for _, r := range rs {
		ks = append(ks, fmt.Sprint(r.Key))
	}
	if len(ks) > 14 {
		ks = append(ks[:6], append([]string{"…"}, ks[len(ks)-6:]...)...)
	}
	return "[" + strings.Join(ks, ",") + "]"
}

// PointQueries re-queries every record ever accepted through the gRPC query servers (client
// boundary) plus the *Storage query, on ctx.
func (m *RegistryModel) PointQueries(e *Env, ctx sdk.Context, maxLimit uint64, viol func(rule, sig, msg string)) int {
	n := 0
	gctx := sdk.WrapSDKContext(ctx)
	for _, id := range m.order {
		en := m.Entries[id]
		in := map[uint64]string{}
		for _, r := range en.InState {
			in[r.Key] = r.Content
		}
		// sample: all in-state + up to 24 pruned
		recs := en.All
		if len(recs) > len(en.InState)+24 {
			recs = recs[len(recs)-len(en.InState)-24:]
		}
		for _, r := range recs {
			n++
			var got string
			var err error
			if m.Kind == "wrk" {
				res, e2 := e.L.App.WrkchainKeeper.WrkChainBlock(gctx, &wrkchaintypes.QueryWrkChainBlockRequest{WrkchainId: id, Height: r.Key})
				err = e2
				if e2 == nil && res.Block != nil {
					got = wrkContent(*res.Block)
					if ownerHex(res.Owner) != en.Owner || res.WrkchainId != id {
						viol("point-query-owner", m.Kind, fmt.Sprintf("WrkChainBlock(%d,%d) reports id %d owner %s", id, r.Key, res.WrkchainId, res.Owner))
					}
				}
			} else {
				res, e2 := e.L.App.BeaconKeeper.BeaconTimestamp(gctx, &beacontypes.QueryBeaconTimestampRequest{BeaconId: id, TimestampId: r.Key})
				err = e2
				if e2 == nil && res.Timestamp != nil {
					got = beaconContent(*res.Timestamp)
				}
			}
			want, retained := in[r.Key]
			switch {
			case retained && err != nil:
				viol("point-query-missing", m.Kind, fmt.Sprintf("%s %d record %d is inside the retention window but the query fails: %v", m.Kind, id, r.Key, err))
			case retained && got != want:
				viol("point-query-content", m.Kind, fmt.Sprintf("%s %d record %d query returns %q, submitted %q", m.Kind, id, r.Key, got, want))
			case !retained && err == nil:
				viol("point-query-pruned-still-served", m.Kind, fmt.Sprintf("%s %d record %d was pruned (limit %d) but is still served: %q", m.Kind, id, r.Key, en.Limit, got))
			}
		}
		// storage query
		var cl, cu, mx, mp uint64
		var err error
		if m.Kind == "wrk" {
			res, e2 := e.L.App.WrkchainKeeper.WrkChainStorage(gctx, &wrkchaintypes.QueryWrkChainStorageRequest{WrkchainId: id})
			err = e2
			if e2 == nil {
				cl, cu, mx, mp = res.CurrentLimit, res.CurrentUsed, res.Max, res.MaxPurchasable
			}
		} else {
			res, e2 := e.L.App.BeaconKeeper.BeaconStorage(gctx, &beacontypes.QueryBeaconStorageRequest{BeaconId: id})
			err = e2
			if e2 == nil {
				cl, cu, mx, mp = res.CurrentLimit, res.CurrentUsed, res.Max, res.MaxPurchasable
			}
		}
		n++
		if err != nil {
			viol("storage-query-error", m.Kind, fmt.Sprintf("%s storage query for %d failed: %v", m.Kind, id, err))
			continue
		}
		wantMP := uint64(0)
		if maxLimit > en.Limit {
			wantMP = maxLimit - en.Limit
		}
		if cl != en.Limit || cu != uint64(len(en.InState)) || mx != maxLimit {
			viol("storage-query-counters", m.Kind, fmt.Sprintf("%s %d storage query limit=%d used=%d max=%d, expected %d/%d/%d", m.Kind, id, cl, cu, mx, en.Limit, len(en.InState), maxLimit))
		}
		if mp != wantMP {
			sig := m.Kind + "/limit<=max"
			if en.Limit > maxLimit {
				sig = m.Kind + "/limit>max"
			}
			viol("storage-query-max-purchasable", sig, fmt.Sprintf("%s %d reports max purchasable %d, expected max(0, %d - %d) = %d", m.Kind, id, mp, maxLimit, en.Limit, wantMP))
		}
	}
	return n
}

// RegistryMonitor wires both models into an Env. rulesFor decides which rule families produce
// violations for the property that runs it (all rules are evaluated; others are ignored).
type RegistryMonitor struct {
	Wrk, Beacon *RegistryModel
	Evals       int
}

func NewRegistryMonitor(e *Env, filter func(rule string) bool) (*RegistryMonitor, *Monitor) {
	rm := &RegistryMonitor{Wrk: NewRegistryModel("wrk", e.L.Opts.WrkStartID), Beacon: NewRegistryModel("beacon", e.L.Opts.BeaconStartID)}
	viol := func(rule, sig, msg string) {
		if filter == nil || filter(rule) {
			e.C.Violate(rule, sig, "%s | trace: %s", msg, strings.Join(e.TraceTail(4), " ; "))
		}
	}
	mon := &Monitor{Name: "registry"}
	mon.AfterTx = func(e *Env, tx *TxPlan, pre, post *lab.Obs, resp abci.ResponseDeliverTx) {
		leaves, nested := Flatten(tx.Spec.Msgs)
		bt := uint64(e.L.Time.Unix())
		if resp.Code == 0 {
			rm.Wrk.applySuccess(e, leaves, nested, bt, pre.WrkParams.DefaultStorageLimit, pre.WrkParams.MaxStorageLimit, viol)
			rm.Beacon.applySuccess(e, leaves, nested, bt, pre.BeaconParams.DefaultStorageLimit, pre.BeaconParams.MaxStorageLimit, viol)
			e.C.Count("registry_success_txs", 1)
		} else {
			e.C.Count("registry_failed_txs", 1)
		}
		rm.Wrk.Compare(e, post, viol)
		rm.Beacon.Compare(e, post, viol)
		ctx := e.L.Ctx()
		rm.Evals += rm.Wrk.PointQueries(e, ctx, post.WrkParams.MaxStorageLimit, viol)
		rm.Evals += rm.Beacon.PointQueries(e, ctx, post.BeaconParams.MaxStorageLimit, viol)
	}
	mon.AfterBlock = func(e *Env, o *lab.Obs) {
		rm.Wrk.Compare(e, o, viol)
		rm.Beacon.Compare(e, o, viol)
		ctx := e.L.QueryCtx()
		rm.listings(e, ctx, viol)
		rm.Evals += rm.Wrk.PointQueries(e, ctx, o.WrkParams.MaxStorageLimit, viol)
		rm.Evals += rm.Beacon.PointQueries(e, ctx, o.BeaconParams.MaxStorageLimit, viol)
	}
	return rm, mon
}

// listings: what the LIST endpoints tell a client about every registration must be what was
// submitted (id, owner, moniker, name, genesis hash / type) - not only what the point queries and
// the keeper say. Walked with a small page size so that several pages are decoded.
func (rm *RegistryMonitor) listings(e *Env, ctx sdk.Context, viol func(rule, sig, msg string)) {
	g := sdk.WrapSDKContext(ctx)
	seen := map[uint64]bool{}
	var key []byte
	for page := 0; page < 200; page++ {
		res, err := e.L.App.WrkchainKeeper.WrkChainsFiltered(g, &wrkchaintypes.QueryWrkChainsFilteredRequest{Pagination: &query.PageRequest{Key: key, Limit: 3}})
		if err != nil {
			viol("listing-error", "wrk", fmt.Sprintf("WrkChainsFiltered: %v", err))
			break
		}
		for _, w := range res.Wrkchains {
			en := rm.Wrk.Entries[w.WrkchainId]
			if en == nil {
				continue // registration-set covers unknown ids
			}
			if seen[w.WrkchainId] {
				viol("listing-fields", "wrk/duplicate", fmt.Sprintf("WRKChain %d listed twice", w.WrkchainId))
			}
			seen[w.WrkchainId] = true
			if f := w.Moniker + "|" + w.Name + "|" + w.Genesis + "|" + w.Type; f != en.Fields || ownerHex(w.Owner) != en.Owner {
				viol("listing-fields", "wrk", fmt.Sprintf("the WRKChain listing reports %d as {%s} owned by %s; submitted {%s} by %s", w.WrkchainId, f, ownerHex(w.Owner), en.Fields, en.Owner))
			}
		}
		rm.Evals += len(res.Wrkchains)
		if res.Pagination == nil || len(res.Pagination.NextKey) == 0 {
			break
		}
		key = res.Pagination.NextKey
	}
	if len(seen) != len(rm.Wrk.Entries) {
		viol("listing-fields", "wrk/missing", fmt.Sprintf("the WRKChain listing reports %d registrations, %d were made", len(seen), len(rm.Wrk.Entries)))
	}
	seen = map[uint64]bool{}
	key = nil
	for page := 0; page < 200; page++ {
		res, err := e.L.App.BeaconKeeper.BeaconsFiltered(g, &beacontypes.QueryBeaconsFilteredRequest{Pagination: &query.PageRequest{Key: key, Limit: 3}})
		if err != nil {
			viol("listing-error", "beacon", fmt.Sprintf("BeaconsFiltered: %v", err))
			break
		}
		for _, b := range res.Beacons {
			en := rm.Beacon.Entries[b.BeaconId]
			if en == nil {
				continue
			}
			if seen[b.BeaconId] {
				viol("listing-fields", "beacon/duplicate", fmt.Sprintf("BEACON %d listed twice", b.BeaconId))
			}
			seen[b.BeaconId] = true
			if f := b.Moniker + "|" + b.Name; f != en.Fields || ownerHex(b.Owner) != en.Owner {
				viol("listing-fields", "beacon", fmt.Sprintf("the BEACON listing reports %d as {%s} owned by %s; submitted {%s} by %s", b.BeaconId, f, ownerHex(b.Owner), en.Fields, en.Owner))
			}
		}
		rm.Evals += len(res.Beacons)
		if res.Pagination == nil || len(res.Pagination.NextKey) == 0 {
			break
		}
		key = res.Pagination.NextKey
	}
	if len(seen) != len(rm.Beacon.Entries) {
		viol("listing-fields", "beacon/missing", fmt.Sprintf("the BEACON listing reports %d registrations, %d were made", len(seen), len(rm.Beacon.Entries)))
	}
}
