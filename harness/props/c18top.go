package props

import (
	"bytes"
	"fmt"
	"time"

	"cosmossdk.io/math"
	dbm "github.com/cometbft/cometbft-db"
	sdk "github.com/cosmos/cosmos-sdk/types"

	beacontypes "github.com/unification-com/mainchain/x/beacon/types"
	enttypes "github.com/unification-com/mainchain/x/enterprise/types"
	wrkchaintypes "github.com/unification-com/mainchain/x/wrkchain/types"

	"verifharness/fw"
	"verifharness/lab"
)

// c18TopOfIDSpace: chains whose identifier counters start right below 2^64 (a genesis may say so):
// registrations and purchase orders are made across the point where the counter runs out. Whatever
// an allocation at the edge does - wrap, refuse - it must never write over a key that holds an
// existing entity: after every transaction every key of the WRKChain / BEACON stores that existed
// before (other than the counter itself) and every existing purchase-order record must be
// byte-identical or belong to the entity the transaction itself addresses.
func c18TopOfIDSpace(c *fw.Ctx, start uint64) {
	o := lab.DefaultOptions()
	o.NAccts = 4
	o.Home = fmt.Sprintf("%s/home-top-%d", c.Scratch, start&0xff)
	o.WrkStartID, o.BeaconStartID, o.PoStartID = start, start, start
	o.Whitelist = []int{1, 2}
	l := lab.New(dbm.NewMemDB(), o)
	defer l.Cleanup()
	counterKey := []byte{0x20}
	stores := []string{"wrkchain", "beacon", "enterprise"}
	step := 0
	for round := 0; round < 3; round++ {
		for _, ai := range []int{1, 2} {
			a := l.Accts[ai]
			l.Begin(time.Second)
			msgs := []struct {
				kind string
				fee  sdk.Coins
				m    sdk.Msg
			}{
				{"WrkReg", sdk.NewCoins(sdk.NewCoin(o.Wrk.Denom, math.NewIntFromUint64(o.Wrk.FeeRegister))), &wrkchaintypes.MsgRegisterWrkChain{Moniker: fmt.Sprintf("top-wc-%d", step), Name: fmt.Sprintf("name %d", step), GenesisHash: fmt.Sprintf("gen%d", step), BaseType: "geth", Owner: a.Addr.String()}},
				{"BcnReg", sdk.NewCoins(sdk.NewCoin(o.Beacon.Denom, math.NewIntFromUint64(o.Beacon.FeeRegister))), &beacontypes.MsgRegisterBeacon{Moniker: fmt.Sprintf("top-bc-%d", step), Name: fmt.Sprintf("name %d", step), Owner: a.Addr.String()}},
				{"PoRaise", nil, &enttypes.MsgUndPurchaseOrder{Purchaser: a.Addr.String(), Amount: sdk.NewInt64Coin(o.Ent.Denom, int64(1000+step))}},
			}
			for _, x := range msgs {
				before := l.SnapshotStores(l.Ctx(), stores)
				resp := l.Tx(a, x.fee, x.m)
				after := l.SnapshotStores(l.Ctx(), stores)
				out := "ok"
				if resp.Code != 0 {
					out = "refused"
				}
				c.Count("top_of_id_space_ops", 1)
				c.Distinct(fmt.Sprintf("top-of-id-space/start=2^64-%d/%s/%s", -start, x.kind, out)) // -start = 2^64 - start
				for _, d := range lab.DiffSnapshots(before, after) {
					if d.Old == nil { // a new key
						continue
					}
					switch d.Store {
					case "wrkchain", "beacon":
						if x.kind != "WrkReg" && x.kind != "BcnReg" {
							continue // fee bookkeeping does not live here; only registrations are judged
						}
						if bytes.Equal(d.Key, counterKey) {
							continue
						}
					case "enterprise":
						if x.kind != "PoRaise" || len(d.Key) != 9 || d.Key[0] != 0x01 { // existing purchase-order records only
							continue
						}
					}
					c.Violate("alias-allocation-overwrote-entity", d.Store+"/"+x.kind, "counters started at %d: %s by a%d (code %d) changed a key that already held another entity: %s", start, x.kind, ai, resp.Code, d.String())
				}
				step++
			}
			l.End()
		}
	}
}
