// mutgen lists and applies classic mutation operators (relational / arithmetic / logical operator
// replacement, negation removal, constant +-1, statement deletion of plain calls and assignments)
// to one Go source file. It is part of section 7 of DESIGN.md ("validating the monitors"): the
// survivors of a mutation run show which code no monitor is watching.
//
//	mutgen list <file.go>            -> one line per mutation site: <index> <line> <kind> <description>
//	mutgen apply <file.go> <index>   -> mutated source on stdout
package main

import (
	"fmt"
	"go/ast"
	"go/parser"
	"go/token"
	"os"
	"sort"
	"strconv"
)

type site struct {
	start, end int // byte offsets to replace
	repl       string
	line       int
	kind, desc string
}

var swaps = map[token.Token][]token.Token{
	token.LSS: {token.LEQ}, token.LEQ: {token.LSS}, token.GTR: {token.GEQ}, token.GEQ: {token.GTR},
	token.EQL: {token.NEQ}, token.NEQ: {token.EQL}, token.ADD: {token.SUB}, token.SUB: {token.ADD},
	token.LAND: {token.LOR}, token.LOR: {token.LAND}, token.MUL: {token.QUO}, token.QUO: {token.MUL},
}

func main() {
	if len(os.Args) < 3 {
		fmt.Fprintln(os.Stderr, "usage: mutgen list|apply file [index]")
		os.Exit(2)
	}
	file := os.Args[2]
	src, err := os.ReadFile(file)
	if err != nil {
		panic(err)
	}
	fset := token.NewFileSet()
	f, err := parser.ParseFile(fset, file, src, parser.ParseComments)
	if err != nil {
		panic(err)
	}
	off := func(p token.Pos) int { return fset.Position(p).Offset }
	var sites []site
	ast.Inspect(f, func(n ast.Node) bool {
		switch x := n.(type) {
		case *ast.BinaryExpr:
			// skip string concatenation
			if x.Op == token.ADD {
				if bl, ok := x.X.(*ast.BasicLit); ok && bl.Kind == token.STRING {
					return true
				}
				if bl, ok := x.Y.(*ast.BasicLit); ok && bl.Kind == token.STRING {
					return true
				}
			}
			for _, to := range swaps[x.Op] {
				s := off(x.OpPos)
				sites = append(sites, site{s, s + len(x.Op.String()), to.String(), fset.Position(x.OpPos).Line, "op", fmt.Sprintf("%s -> %s", x.Op, to)})
			}
		case *ast.UnaryExpr:
			if x.Op == token.NOT {
				s := off(x.OpPos)
				sites = append(sites, site{s, s + 1, "", fset.Position(x.OpPos).Line, "not", "remove !"})
			}
		case *ast.BasicLit:
			if x.Kind == token.INT {
				if v, err := strconv.ParseInt(x.Value, 0, 64); err == nil && v >= 0 && v <= 100000 {
					s := off(x.Pos())
					sites = append(sites, site{s, s + len(x.Value), strconv.FormatInt(v+1, 10), fset.Position(x.Pos()).Line, "const", fmt.Sprintf("%d -> %d", v, v+1)})
				}
			}
		case *ast.IfStmt:
			// negate the condition: if c -> if !(c)
			s, e := off(x.Cond.Pos()), off(x.Cond.End())
			sites = append(sites, site{s, e, "!(" + string(src[s:e]) + ")", fset.Position(x.Cond.Pos()).Line, "negate", "negate if condition"})
		case *ast.BlockStmt:
			for _, st := range x.List {
				switch y := st.(type) {
				case *ast.ExprStmt:
					if _, ok := y.X.(*ast.CallExpr); ok {
						s, e := off(y.Pos()), off(y.End())
						sites = append(sites, site{s, e, "", fset.Position(y.Pos()).Line, "delcall", "delete call statement " + firstLine(string(src[s:e]))})
					}
				case *ast.AssignStmt:
					if y.Tok == token.ASSIGN && len(y.Lhs) == 1 {
						if _, isCall := y.Rhs[0].(*ast.CallExpr); !isCall {
							s, e := off(y.Pos()), off(y.End())
							sites = append(sites, site{s, e, "", fset.Position(y.Pos()).Line, "delassign", "delete assignment " + firstLine(string(src[s:e]))})
						}
					}
				}
			}
		}
		return true
	})
	sort.SliceStable(sites, func(i, j int) bool { return sites[i].start < sites[j].start })
	switch os.Args[1] {
	case "list":
		for i, s := range sites {
			fmt.Printf("%d %d %s %s\n", i, s.line, s.kind, s.desc)
		}
	case "apply":
		i, _ := strconv.Atoi(os.Args[3])
		s := sites[i]
		os.Stdout.Write(src[:s.start])
		os.Stdout.WriteString(s.repl)
		os.Stdout.Write(src[s.end:])
	}
}

func firstLine(s string) string {
	for i, c := range s {
		if c == '\n' {
			return s[:i]
		}
	}
	if len(s) > 60 {
		return s[:60]
	}
	return s
}
