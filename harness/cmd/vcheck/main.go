package main

import (
	"fmt"
	"os"
	"strconv"

	"verifharness/fw"
	"verifharness/props"
)

func main() {
	if len(os.Args) < 2 {
		fmt.Fprintln(os.Stderr, "usage: vcheck run <id> <quick|thorough> | worker … | replay <file> | case <id> <tier> <seed> <case> [race] | list")
		os.Exit(3)
	}
	switch os.Args[1] {
	case "run":
		os.Exit(fw.RunMain(os.Args[2], os.Args[3]))
	case "worker":
		os.Exit(fw.WorkerMain(os.Args[2:]))
	case "replay":
		os.Exit(fw.ReplayMain(os.Args[2]))
	case "case":
		seed, _ := strconv.ParseInt(os.Args[4], 10, 64)
		idx, _ := strconv.Atoi(os.Args[5])
		os.Exit(fw.RunCaseMain(os.Args[2], os.Args[3], seed, idx, len(os.Args) > 6 && os.Args[6] == "race"))
	case "replica":
		os.Exit(props.ReplicaMain(os.Args[2:]))
	case "list":
		for _, id := range fw.IDs() {
			fmt.Println(id)
		}
	default:
		os.Exit(3)
	}
}
