package spike

import (
	"fmt"
	"testing"
	"time"

	dbm "github.com/cometbft/cometbft-db"
	sdk "github.com/cosmos/cosmos-sdk/types"
	banktypes "github.com/cosmos/cosmos-sdk/x/bank/types"
	"github.com/cosmos/cosmos-sdk/x/group"
	streamtypes "github.com/unification-com/mainchain/x/stream/types"
	wrkchaintypes "github.com/unification-com/mainchain/x/wrkchain/types"
)

func TestGroupPolicy(t *testing.T) {
	l := NewLab(t, dbm.NewMemDB(), defaultOpts(nil))
	a := l.Accts
	l.Begin(time.Second)
	l.End()
	l.Begin(time.Second)
	pol := group.NewThresholdDecisionPolicy("1", time.Second*5, 0)
	m, err := group.NewMsgCreateGroupWithPolicy(a[1].Addr.String(), []group.MemberRequest{{Address: a[1].Addr.String(), Weight: "1"}}, "", "", false, pol)
	if err != nil {
		t.Fatal(err)
	}
	r := l.Deliver(l.BuildTx(t, nund(0), 500000, []Acct{a[1]}, nil, m))
	var polAddr string
	for _, e := range r.Events {
		for _, at := range e.Attributes {
			if at.Key == "address" {
				polAddr = at.Value
			}
		}
	}
	fmt.Println("create group", r.Code, polAddr)
	l.End()
	res, err := l.App.GroupKeeper.GroupPoliciesByAdmin(sdk.WrapSDKContext(l.CheckCtx()), &group.QueryGroupPoliciesByAdminRequest{Admin: a[1].Addr.String()})
	if err != nil || len(res.GroupPolicies) == 0 {
		t.Fatal(err, res)
	}
	polAddr = res.GroupPolicies[0].Address
	pa, _ := sdk.AccAddressFromBech32(polAddr)
	fmt.Println("policy addr len", len(pa))
	l.Begin(time.Second)
	r = l.Deliver(l.BuildTx(t, nund(0), 500000, []Acct{a[1]}, nil, banktypes.NewMsgSend(a[1].Addr, pa, nund(10_000_000))))
	fmt.Println("fund", r.Code)
	cs := streamtypes.NewMsgCreateStream(sdk.NewInt64Coin(Denom, 100000), 10, a[4].Addr, pa)
	reg := wrkchaintypes.NewMsgRegisterWrkChain("gm", "g", "n", "t", pa)
	sp, err := group.NewMsgSubmitProposal(polAddr, []string{a[1].Addr.String()}, []sdk.Msg{cs, reg}, "", group.Exec_EXEC_TRY, "t", "s")
	if err != nil {
		t.Fatal(err)
	}
	r = l.Deliver(l.BuildTx(t, nund(0), 900000, []Acct{a[1]}, nil, sp))
	fmt.Println("submit+exec", r.Code, r.Log[:min(200, len(r.Log))])
	l.End()
	ctx := sdk.WrapSDKContext(l.CheckCtx())
	q, err := l.App.StreamKeeper.Streams(ctx, &streamtypes.QueryStreamsRequest{})
	fmt.Println("streams:", q, err)
	q2, err := l.App.StreamKeeper.AllStreamsForSender(ctx, &streamtypes.QueryAllStreamsForSenderRequest{SenderAddr: polAddr})
	fmt.Println("by sender:", len(q2.Streams), err)
	w, _ := l.App.WrkchainKeeper.GetWrkChain(l.CheckCtx(), 1)
	fmt.Println("wrkchain owner", w.Owner)
}
