package spike

import (
	"fmt"
	"strings"
	"testing"
	"time"

	dbm "github.com/cometbft/cometbft-db"
	sdk "github.com/cosmos/cosmos-sdk/types"
	enttypes "github.com/unification-com/mainchain/x/enterprise/types"
)

func TestUpperBech32(t *testing.T) {
	o := defaultOpts(nil)
	o.Ent.MinAccepts = 2
	l := NewLab(t, dbm.NewMemDB(), o)
	a := l.Accts
	up := strings.ToUpper(a[0].Addr.String())
	ad, err := sdk.AccAddressFromBech32(up)
	fmt.Println("upper decode:", err, ad.Equals(a[0].Addr))
	l.Begin(time.Second)
	l.End()
	l.Begin(time.Second)
	l.Deliver(l.BuildTx(t, nund(0), 200000, []Acct{a[0]}, nil, enttypes.NewMsgWhitelistAddress(a[2].Addr, enttypes.WhitelistActionAdd, a[0].Addr)))
	l.Deliver(l.BuildTx(t, nund(0), 200000, []Acct{a[2]}, nil, enttypes.NewMsgUndPurchaseOrder(a[2].Addr, sdk.NewInt64Coin(Denom, 5000))))
	r := l.Deliver(l.BuildTx(t, nund(0), 200000, []Acct{a[0]}, nil, enttypes.NewMsgProcessUndPurchaseOrder(1, enttypes.StatusAccepted, a[0].Addr)))
	fmt.Println("decide 1 (lower):", r.Code)
	r = l.Deliver(l.BuildTx(t, nund(0), 200000, []Acct{a[0]}, nil, enttypes.NewMsgProcessUndPurchaseOrder(1, enttypes.StatusAccepted, a[0].Addr)))
	fmt.Println("decide 2 (lower again):", r.Code)
	m := &enttypes.MsgProcessUndPurchaseOrder{PurchaseOrderId: 1, Decision: enttypes.StatusAccepted, Signer: up}
	r = l.Deliver(l.BuildTx(t, nund(0), 200000, []Acct{a[0]}, nil, m))
	fmt.Println("decide 3 (UPPER same signer):", r.Code, r.Log[:min(len(r.Log), 150)])
	l.End()
	l.Begin(time.Second)
	l.End()
	l.Begin(time.Second)
	l.End()
	po, _ := l.App.EnterpriseKeeper.GetPurchaseOrder(l.CheckCtx(), 1)
	fmt.Println("C03 PO status with MinAccepts=2 and ONE signer deciding:", po.Status, len(po.Decisions), "locked:", l.App.EnterpriseKeeper.GetTotalLockedUnd(l.CheckCtx()))
}
