package spike

import (
	"fmt"
	"testing"
	"time"

	dbm "github.com/cometbft/cometbft-db"
	sdk "github.com/cosmos/cosmos-sdk/types"
	streamtypes "github.com/unification-com/mainchain/x/stream/types"
)

func TestTopUpAfterDrain(t *testing.T) {
	o := defaultOpts(nil)
	o.Stream = streamtypes.Params{ValidatorFee: sdk.ZeroDec()}
	l := NewLab(t, dbm.NewMemDB(), o)
	a := l.Accts
	l.Begin(time.Second)
	l.End()
	l.Begin(time.Second)
	r := l.Deliver(l.BuildTx(t, nund(0), 300000, []Acct{a[3]}, nil, streamtypes.NewMsgCreateStream(sdk.NewInt64Coin(Denom, 100000), 10, a[4].Addr, a[3].Addr)))
	fmt.Println("create", r.Code)
	l.End()
	l.Begin(20000 * time.Second)
	r = l.Deliver(l.BuildTx(t, nund(0), 300000, []Acct{a[4]}, nil, streamtypes.NewMsgClaimStream(a[4].Addr, a[3].Addr)))
	fmt.Println("claim all", r.Code)
	l.End()
	st, _ := l.App.StreamKeeper.GetStream(l.CheckCtx(), a[4].Addr, a[3].Addr)
	fmt.Println("after drain:", st.Deposit, st.LastOutflowTime.Unix(), st.DepositZeroTime.Unix())
	l.Begin(5000 * time.Second)
	r = l.Deliver(l.BuildTx(t, nund(0), 300000, []Acct{a[3]}, nil, streamtypes.NewMsgTopUpDeposit(a[4].Addr, a[3].Addr, sdk.NewInt64Coin(Denom, 100000))))
	fmt.Println("topup", r.Code, r.Log[:min(len(r.Log), 100)])
	l.End()
	st, _ = l.App.StreamKeeper.GetStream(l.CheckCtx(), a[4].Addr, a[3].Addr)
	fmt.Println("after topup:", st.Deposit, "last", st.LastOutflowTime.Unix(), "zero", st.DepositZeroTime.Unix(), "now", l.Time.Unix())
	before := l.App.BankKeeper.GetBalance(l.CheckCtx(), a[4].Addr, Denom)
	l.Begin(10 * time.Second)
	r = l.Deliver(l.BuildTx(t, nund(0), 300000, []Acct{a[4]}, nil, streamtypes.NewMsgClaimStream(a[4].Addr, a[3].Addr)))
	l.End()
	after := l.App.BankKeeper.GetBalance(l.CheckCtx(), a[4].Addr, Denom)
	fmt.Println("C11 claim 10s after top-up paid (expected 100):", after.Sub(before))
}
