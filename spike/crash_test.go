package spike

import (
	"fmt"
	"os"
	"os/exec"
	"strconv"
	"sync/atomic"
	"syscall"
	"testing"
	"time"

	dbm "github.com/cometbft/cometbft-db"
	"github.com/cometbft/cometbft/libs/log"
	"github.com/cosmos/cosmos-sdk/baseapp"
	"github.com/cosmos/cosmos-sdk/client/flags"
	simtestutil "github.com/cosmos/cosmos-sdk/testutil/sims"
	"github.com/unification-com/mainchain/app"
	wrkchaintypes "github.com/unification-com/mainchain/x/wrkchain/types"
)

type crashDB struct {
	dbm.DB
	n      *int64
	killAt int64
}

func (c crashDB) tick() {
	if atomic.AddInt64(c.n, 1) == c.killAt {
		syscall.Kill(os.Getpid(), syscall.SIGKILL)
		time.Sleep(time.Hour)
	}
}
func (c crashDB) Set(k, v []byte) error     { c.tick(); return c.DB.Set(k, v) }
func (c crashDB) SetSync(k, v []byte) error { c.tick(); return c.DB.SetSync(k, v) }
func (c crashDB) Delete(k []byte) error     { c.tick(); return c.DB.Delete(k) }
func (c crashDB) DeleteSync(k []byte) error { c.tick(); return c.DB.DeleteSync(k) }
func (c crashDB) NewBatch() dbm.Batch       { return crashBatch{c.DB.NewBatch(), c} }

type crashBatch struct {
	dbm.Batch
	c crashDB
}

func (b crashBatch) Write() error     { b.c.tick(); return b.Batch.Write() }
func (b crashBatch) WriteSync() error { b.c.tick(); return b.Batch.WriteSync() }

func runHistory(t testing.TB, db dbm.DB, blocks int, report func(h int64, hash []byte)) {
	l := NewLab(t, db, defaultOpts(nil))
	a := l.Accts
	l.Begin(time.Second)
	l.Deliver(l.BuildTx(t, nund(1000), 200000, []Acct{a[3]}, nil, wrkchaintypes.NewMsgRegisterWrkChain("m", "g", "n", "t", a[3].Addr)))
	report(l.Height, l.End())
	for i := 0; i < blocks; i++ {
		l.Begin(time.Second)
		l.Deliver(l.BuildTx(t, nund(10), 200000, []Acct{a[3]}, nil, wrkchaintypes.NewMsgRecordWrkChainBlock(1, uint64(i+1), "h", "p", "", "", "", a[3].Addr)))
		report(l.Height, l.End())
	}
}

func TestCrashChild(t *testing.T) {
	dir := os.Getenv("SPIKE_DIR")
	if dir == "" {
		t.Skip()
	}
	killAt, _ := strconv.ParseInt(os.Getenv("SPIKE_KILL"), 10, 64)
	base, err := dbm.NewGoLevelDB("app", dir)
	if err != nil {
		t.Fatal(err)
	}
	var n int64
	db := crashDB{DB: base, n: &n, killAt: killAt}
	f, _ := os.OpenFile(dir+"/progress.log", os.O_CREATE|os.O_WRONLY|os.O_APPEND, 0o644)
	runHistory(t, db, 5, func(h int64, hash []byte) {
		fmt.Fprintf(f, "%d %X %d\n", h, hash, atomic.LoadInt64(&n))
		f.Sync()
	})
	fmt.Println("child done, writes:", n)
}

func TestCrashParent(t *testing.T) {
	// reference
	ref := map[int64]string{}
	runHistory(t, dbm.NewMemDB(), 5, func(h int64, hash []byte) { ref[h] = fmt.Sprintf("%X", hash) })
	for k := int64(150); k <= 384; k += 3 {
		dir := t.TempDir()
		cmd := exec.Command(os.Args[0], "-test.run", "TestCrashChild", "-test.v")
		cmd.Env = append(os.Environ(), "SPIKE_DIR="+dir, "SPIKE_KILL="+strconv.FormatInt(k, 10))
		out, err := cmd.CombinedOutput()
		_ = out
		prog, _ := os.ReadFile(dir + "/progress.log")
		var lastH int64
		var lastHash string
		var w int64
		for _, ln := range splitLines(string(prog)) {
			fmt.Sscanf(ln, "%d %s %d", &lastH, &lastHash, &w)
		}
		db, e2 := dbm.NewGoLevelDB("app", dir)
		if e2 != nil {
			fmt.Println("k", k, "reopen db err", e2)
			continue
		}
		func() {
			defer func() {
				if r := recover(); r != nil {
					fmt.Println("k", k, "REOPEN PANIC", r)
				}
			}()
			app2 := app.NewApp(log.NewNopLogger(), db, nil, true, simtestutil.AppOptionsMap{flags.FlagHome: t.TempDir()}, baseapp.SetChainID(ChainID))
			h := app2.LastBlockHeight()
			hash := fmt.Sprintf("%X", app2.LastCommitID().Hash)
			ok := (h == 0 && hash == "") || ref[h] == hash
			fmt.Printf("k=%d childerr=%v logged(h=%d,w=%d) reopened h=%d refmatch=%v (h in {logged,logged+1}: %v)\n", k, err != nil, lastH, w, h, ok, h == lastH || h == lastH+1)
		}()
		db.Close()
	}
}

func splitLines(s string) []string {
	var out []string
	cur := ""
	for _, c := range s {
		if c == '\n' {
			if cur != "" {
				out = append(out, cur)
			}
			cur = ""
		} else {
			cur += string(c)
		}
	}
	return out
}
