package spike

import "math/big"

type bigInt = big.Int

func one() *big.Int { return big.NewInt(1) }
