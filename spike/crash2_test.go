package spike

import (
	"github.com/cosmos/cosmos-sdk/crypto/keys/ed25519"
	"fmt"
	"os"
	"os/exec"
	"strconv"
	"testing"
	"time"

	dbm "github.com/cometbft/cometbft-db"
	"github.com/cometbft/cometbft/libs/log"
	"github.com/cosmos/cosmos-sdk/baseapp"
	"github.com/cosmos/cosmos-sdk/client/flags"
	simtestutil "github.com/cosmos/cosmos-sdk/testutil/sims"
	"github.com/unification-com/mainchain/app"
	wrkchaintypes "github.com/unification-com/mainchain/x/wrkchain/types"
)

// resume a history at an arbitrary height on an already-initialised app
func resumeHistory(t testing.TB, a2 *app.App, blocks int, report func(h int64, hash []byte)) {
	l := &Lab{App: a2}
	l.ValAddr = ed25519.GenPrivKeyFromSecret([]byte("lab-val")).PubKey().Address()
	for i := 0; i < 6; i++ {
		l.Accts = append(l.Accts, newAcct(i))
	}
	start := time.Unix(1700000000, 0).UTC()
	l.Height = a2.LastBlockHeight()
	l.Time = start.Add(time.Duration(l.Height-1) * time.Second)
	a := l.Accts
	for l.Height < int64(blocks)+2 {
		l.Begin(time.Second)
		if l.Height == 2 {
			l.Deliver(l.BuildTx(t, nund(1000), 200000, []Acct{a[3]}, nil, wrkchaintypes.NewMsgRegisterWrkChain("m", "g", "n", "t", a[3].Addr)))
		} else {
			l.Deliver(l.BuildTx(t, nund(10), 200000, []Acct{a[3]}, nil, wrkchaintypes.NewMsgRecordWrkChainBlock(1, uint64(l.Height-2), "h", "p", "", "", "", a[3].Addr)))
		}
		report(l.Height, l.End())
	}
}

func TestCrashResume(t *testing.T) {
	ref := map[int64]string{}
	runHistory(t, dbm.NewMemDB(), 5, func(h int64, hash []byte) { ref[h] = fmt.Sprintf("%X", hash) })
	bad := 0
	n := 0
	for k := int64(276); k <= 384; k += 1 {
		dir := t.TempDir()
		cmd := exec.Command(os.Args[0], "-test.run", "TestCrashChild")
		cmd.Env = append(os.Environ(), "SPIKE_DIR="+dir, "SPIKE_KILL="+strconv.FormatInt(k, 10))
		cmd.CombinedOutput()
		db, _ := dbm.NewGoLevelDB("app", dir)
		func() {
			defer func() {
				if r := recover(); r != nil {
					fmt.Println("k", k, "PANIC", r)
					bad++
				}
			}()
			app2 := app.NewApp(log.NewNopLogger(), db, nil, true, simtestutil.AppOptionsMap{flags.FlagHome: t.TempDir()}, baseapp.SetChainID(ChainID))
			h0 := app2.LastBlockHeight()
			resumeHistory(t, app2, 5, func(h int64, hash []byte) {
				n++
				if ref[h] != fmt.Sprintf("%X", hash) {
					fmt.Println("k", k, "resumed from", h0, "DIVERGED at", h)
					bad++
				}
			})
		}()
		db.Close()
	}
	fmt.Println("resume checks:", n, "bad:", bad)
}
