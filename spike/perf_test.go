package spike

import (
	"fmt"
	"testing"
	"time"

	dbm "github.com/cometbft/cometbft-db"
	abci "github.com/cometbft/cometbft/abci/types"
	sdk "github.com/cosmos/cosmos-sdk/types"
	enttypes "github.com/unification-com/mainchain/x/enterprise/types"
	streamtypes "github.com/unification-com/mainchain/x/stream/types"
	wrkchaintypes "github.com/unification-com/mainchain/x/wrkchain/types"
)

func TestPerf(t *testing.T) {
	t0 := time.Now()
	var l *Lab
	for i := 0; i < 10; i++ {
		l = NewLab(t, dbm.NewMemDB(), defaultOpts(nil))
	}
	fmt.Println("NewLab avg", time.Since(t0)/10)
	a := l.Accts
	l.Begin(time.Second)
	l.Deliver(l.BuildTx(t, nund(1000), 200000, []Acct{a[3]}, nil, wrkchaintypes.NewMsgRegisterWrkChain("m", "g", "n", "t", a[3].Addr)))
	l.End()
	t0 = time.Now()
	n := 0
	for b := 0; b < 100; b++ {
		l.Begin(time.Second)
		for k := 0; k < 5; k++ {
			n++
			r := l.Deliver(l.BuildTx(t, nund(10), 200000, []Acct{a[3]}, nil, wrkchaintypes.NewMsgRecordWrkChainBlock(1, uint64(n), "h", "p", "", "", "", a[3].Addr)))
			if r.Code != 0 {
				t.Fatal(r.Log)
			}
		}
		l.End()
	}
	fmt.Println("100 blocks x 5 tx:", time.Since(t0), "per tx incl sign", time.Since(t0)/500)
	// simulate probe
	l.Begin(time.Second)
	l.Deliver(l.BuildTx(t, nund(0), 300000, []Acct{a[3]}, nil, streamtypes.NewMsgCreateStream(sdk.NewInt64Coin(Denom, 100000), 10, a[4].Addr, a[3].Addr)))
	l.End()
	l.Begin(30 * time.Second)
	l.End()
	bz := l.BuildTx(t, nund(0), 300000, []Acct{a[4]}, nil, streamtypes.NewMsgClaimStream(a[4].Addr, a[3].Addr))
	gi, res, err := l.App.Simulate(bz)
	fmt.Println("simulate claim:", gi, err, res != nil)
	if res != nil {
		for _, e := range res.Events {
			if e.Type == "claim_stream" {
				fmt.Println(e.String())
			}
		}
	}
	st, _ := l.App.StreamKeeper.GetStream(l.CheckCtx(), a[4].Addr, a[3].Addr)
	fmt.Println("stream after simulate (deposit must be unchanged 100000):", st.Deposit)
	// query via ABCI
	req := enttypes.QueryTotalLockedRequest{}
	qbz, _ := req.Marshal()
	q := l.App.Query(abci.RequestQuery{Path: "/mainchain.enterprise.v1.Query/TotalLocked", Data: qbz})
	fmt.Println("abci query height", q.Height, q.Code, len(q.Value))
	q = l.App.Query(abci.RequestQuery{Path: "/mainchain.enterprise.v1.Query/TotalLocked", Data: qbz, Height: 3})
	fmt.Println("abci query height", q.Height, q.Code, q.Log)
}
