package spike

import (
	"fmt"
	"os"
	"sync"
	"testing"
	"time"

	"cosmossdk.io/math"
	dbm "github.com/cometbft/cometbft-db"
	abci "github.com/cometbft/cometbft/abci/types"
	"github.com/cometbft/cometbft/libs/log"
	"github.com/cosmos/cosmos-sdk/baseapp"
	"github.com/cosmos/cosmos-sdk/client/flags"
	simtestutil "github.com/cosmos/cosmos-sdk/testutil/sims"
	sdk "github.com/cosmos/cosmos-sdk/types"
	"github.com/unification-com/mainchain/app"
	enttypes "github.com/unification-com/mainchain/x/enterprise/types"
	streamtypes "github.com/unification-com/mainchain/x/stream/types"
	wrkchaintypes "github.com/unification-com/mainchain/x/wrkchain/types"
)

func TestExtraDenom(t *testing.T) {
	o := defaultOpts(nil)
	o.ExtraDenom = "foo"
	l := NewLab(t, dbm.NewMemDB(), o)
	a := l.Accts
	l.Begin(time.Second)
	reg := wrkchaintypes.NewMsgRegisterWrkChain("mon", "gh", "name", "geth", a[2].Addr)
	bz := l.BuildTx(t, nund(1).Add(sdk.NewInt64Coin("foo", 1)), 200000, []Acct{a[2]}, nil, reg)
	c := l.Check(bz)
	fmt.Println("C06 low fee + extra denom (no locked) check code:", c.Code, c.Log)
	bz = l.BuildTx(t, nund(5000).Add(sdk.NewInt64Coin("foo", 1)), 200000, []Acct{a[2]}, nil, reg)
	c = l.Check(bz)
	fmt.Println("C06 high fee + extra denom check code:", c.Code, c.Log)
	l.End()
}

func TestRestart(t *testing.T) {
	dir := t.TempDir()
	db, err := dbm.NewGoLevelDB("app", dir)
	if err != nil {
		t.Fatal(err)
	}
	o := defaultOpts(nil)
	l := NewLab(t, db, o)
	a := l.Accts
	l.Begin(time.Second)
	l.Deliver(l.BuildTx(t, nund(1000), 200000, []Acct{a[3]}, nil, wrkchaintypes.NewMsgRegisterWrkChain("m", "g", "n", "t", a[3].Addr)))
	h1 := l.End()
	// interrupted block
	l.Begin(time.Second)
	l.Deliver(l.BuildTx(t, nund(1000), 200000, []Acct{a[3]}, nil, wrkchaintypes.NewMsgRegisterWrkChain("m2", "g", "n", "t", a[3].Addr)))
	// crash: drop app, reopen
	db.Close()
	db2, err := dbm.NewGoLevelDB("app", dir)
	if err != nil {
		t.Fatal(err)
	}
	app2 := app.NewApp(log.NewNopLogger(), db2, nil, true, simtestutil.AppOptionsMap{flags.FlagHome: t.TempDir()}, baseapp.SetChainID(ChainID))
	fmt.Printf("restart: height %d (want %d) hash eq %v\n", app2.LastBlockHeight(), l.Height-1, string(app2.LastCommitID().Hash) == string(h1))
	info := app2.Info(abci.RequestInfo{})
	fmt.Println("info", info.LastBlockHeight)
	ents, _ := os.ReadDir(dir)
	fmt.Println(len(ents))
}

func TestExportRace(t *testing.T) {
	o := defaultOpts(nil)
	l := NewLab(t, dbm.NewMemDB(), o)
	a := l.Accts
	l.Begin(time.Second)
	l.Deliver(l.BuildTx(t, nund(1000), 200000, []Acct{a[3]}, nil, wrkchaintypes.NewMsgRegisterWrkChain("m", "g", "n", "t", a[3].Addr)))
	l.Deliver(l.BuildTx(t, nund(0), 300000, []Acct{a[3]}, nil, streamtypes.NewMsgCreateStream(sdk.NewInt64Coin(Denom, 100000), 10, a[4].Addr, a[3].Addr)))
	l.End()
	var wg sync.WaitGroup
	stop := make(chan struct{})
	for i := 0; i < 4; i++ {
		wg.Add(1)
		go func() {
			defer wg.Done()
			for {
				select {
				case <-stop:
					return
				default:
				}
				req := enttypes.QueryTotalSupplyRequest{}
				bz, _ := req.Marshal()
				r := l.App.Query(abci.RequestQuery{Path: "/mainchain.enterprise.v1.Query/TotalSupply", Data: bz})
				if r.Code != 0 {
					fmt.Println("query err", r.Log)
					return
				}
			}
		}()
	}
	for i := 0; i < 20; i++ {
		l.Begin(time.Second)
		l.Deliver(l.BuildTx(t, nund(10), 200000, []Acct{a[3]}, nil, wrkchaintypes.NewMsgRecordWrkChainBlock(1, uint64(i+1), "h", "p", "", "", "", a[3].Addr)))
		l.End()
	}
	close(stop)
	wg.Wait()
	exp, err := l.App.ExportAppStateAndValidators(false, nil, nil)
	fmt.Println("export", len(exp.AppState), err)
	_ = math.NewInt
}
