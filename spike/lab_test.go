package spike

import (
	"encoding/json"
	"fmt"
	"testing"
	"time"

	"cosmossdk.io/math"
	dbm "github.com/cometbft/cometbft-db"
	abci "github.com/cometbft/cometbft/abci/types"
	"github.com/cometbft/cometbft/libs/log"
	tmproto "github.com/cometbft/cometbft/proto/tendermint/types"
	"github.com/cosmos/cosmos-sdk/baseapp"
	"github.com/cosmos/cosmos-sdk/client"
	"github.com/cosmos/cosmos-sdk/client/flags"
	codectypes "github.com/cosmos/cosmos-sdk/codec/types"
	cryptotypes "github.com/cosmos/cosmos-sdk/crypto/types"
	"github.com/cosmos/cosmos-sdk/crypto/keys/ed25519"
	"github.com/cosmos/cosmos-sdk/crypto/keys/secp256k1"
	simtestutil "github.com/cosmos/cosmos-sdk/testutil/sims"
	sdk "github.com/cosmos/cosmos-sdk/types"
	"github.com/cosmos/cosmos-sdk/types/tx/signing"
	authsigning "github.com/cosmos/cosmos-sdk/x/auth/signing"
	authtypes "github.com/cosmos/cosmos-sdk/x/auth/types"
	vestingtypes "github.com/cosmos/cosmos-sdk/x/auth/vesting/types"
	banktypes "github.com/cosmos/cosmos-sdk/x/bank/types"
	crisistypes "github.com/cosmos/cosmos-sdk/x/crisis/types"
	govtypes "github.com/cosmos/cosmos-sdk/x/gov/types"
	govv1 "github.com/cosmos/cosmos-sdk/x/gov/types/v1"
	stakingtypes "github.com/cosmos/cosmos-sdk/x/staking/types"

	"github.com/unification-com/mainchain/app"
	beacontypes "github.com/unification-com/mainchain/x/beacon/types"
	enttypes "github.com/unification-com/mainchain/x/enterprise/types"
	streamtypes "github.com/unification-com/mainchain/x/stream/types"
	wrkchaintypes "github.com/unification-com/mainchain/x/wrkchain/types"
)

const ChainID = "lab-1"
const Denom = "nund"

type Acct struct {
	Priv cryptotypes.PrivKey
	Addr sdk.AccAddress
}

type Lab struct {
	App    *app.App
	DB     dbm.DB
	Accts  []Acct
	Height int64
	Time   time.Time
	ValAddr []byte
	InBlock bool
}

func newAcct(i int) Acct {
	seed := []byte(fmt.Sprintf("lab-acct-%d", i))
	pk := secp256k1.GenPrivKeyFromSecret(seed)
	return Acct{Priv: pk, Addr: sdk.AccAddress(pk.PubKey().Address())}
}

func init() {
	app.SetConfig()
}

type GenOpts struct {
	NAccts     int
	Vesting    map[int]int64 // acct index -> vesting amount (delayed vesting, end far future)
	Ent        enttypes.Params
	Wrk        wrkchaintypes.Params
	Beacon     beacontypes.Params
	Stream     streamtypes.Params
	ExtraDenom string
}

func NewLab(t testing.TB, db dbm.DB, o GenOpts) *Lab {
	l := &Lab{DB: db}
	for i := 0; i < o.NAccts; i++ {
		l.Accts = append(l.Accts, newAcct(i))
	}
	appOpts := simtestutil.AppOptionsMap{flags.FlagHome: t.TempDir()}
	l.App = app.NewApp(log.NewNopLogger(), db, nil, true, appOpts, baseapp.SetChainID(ChainID))
	cdc := l.App.AppCodec()
	gs := l.App.DefaultGenesis()

	start := time.Unix(1700000000, 0).UTC()
	l.Time = start

	var genAccs []authtypes.GenesisAccount
	var balances []banktypes.Balance
	total := sdk.NewCoins()
	for i, a := range l.Accts {
		coins := sdk.NewCoins(sdk.NewCoin(Denom, math.NewInt(1_000_000_000_000_000)))
		if o.ExtraDenom != "" {
			coins = coins.Add(sdk.NewCoin(o.ExtraDenom, math.NewInt(1_000_000_000_000)))
		}
		base := authtypes.NewBaseAccount(a.Addr, nil, 0, 0)
		if v, ok := o.Vesting[i]; ok {
			va := vestingtypes.NewDelayedVestingAccount(base, sdk.NewCoins(sdk.NewInt64Coin(Denom, v)), start.Unix()+1_000_000_000)
			genAccs = append(genAccs, va)
		} else {
			genAccs = append(genAccs, base)
		}
		balances = append(balances, banktypes.Balance{Address: a.Addr.String(), Coins: coins})
		total = total.Add(coins...)
	}
	gs[authtypes.ModuleName] = cdc.MustMarshalJSON(authtypes.NewGenesisState(authtypes.DefaultParams(), genAccs))

	valPriv := ed25519.GenPrivKeyFromSecret([]byte("lab-val"))
	pkAny, _ := codectypes.NewAnyWithValue(valPriv.PubKey())
	bondAmt := sdk.DefaultPowerReduction
	valAddr := sdk.ValAddress(valPriv.PubKey().Address())
	l.ValAddr = valPriv.PubKey().Address()
	validator := stakingtypes.Validator{
		OperatorAddress: valAddr.String(), ConsensusPubkey: pkAny, Status: stakingtypes.Bonded,
		Tokens: bondAmt, DelegatorShares: math.LegacyOneDec(), UnbondingTime: time.Unix(0, 0).UTC(),
		Commission:        stakingtypes.NewCommission(math.LegacyZeroDec(), math.LegacyZeroDec(), math.LegacyZeroDec()),
		MinSelfDelegation: math.ZeroInt(),
	}
	sp := stakingtypes.DefaultParams()
	sp.BondDenom = Denom
	gs[stakingtypes.ModuleName] = cdc.MustMarshalJSON(stakingtypes.NewGenesisState(sp, []stakingtypes.Validator{validator},
		[]stakingtypes.Delegation{stakingtypes.NewDelegation(l.Accts[0].Addr, valAddr, math.LegacyOneDec())}))
	balances = append(balances, banktypes.Balance{Address: authtypes.NewModuleAddress(stakingtypes.BondedPoolName).String(), Coins: sdk.NewCoins(sdk.NewCoin(Denom, bondAmt))})
	total = total.Add(sdk.NewCoin(Denom, bondAmt))
	gs[banktypes.ModuleName] = cdc.MustMarshalJSON(banktypes.NewGenesisState(banktypes.DefaultGenesisState().Params, balances, total, nil, nil))

	gg := govv1.DefaultGenesisState()
	gg.Params.MinDeposit = sdk.NewCoins(sdk.NewInt64Coin(Denom, 1000))
	vp := 10 * time.Second
	gg.Params.VotingPeriod = &vp
	gs[govtypes.ModuleName] = cdc.MustMarshalJSON(gg)
	gs[crisistypes.ModuleName] = cdc.MustMarshalJSON(crisistypes.NewGenesisState(sdk.NewInt64Coin(Denom, 1000)))

	eg := enttypes.DefaultGenesisState()
	eg.Params = o.Ent
	gs[enttypes.ModuleName] = cdc.MustMarshalJSON(eg)
	wg := wrkchaintypes.DefaultGenesisState()
	wg.Params = o.Wrk
	gs[wrkchaintypes.ModuleName] = cdc.MustMarshalJSON(wg)
	bg := beacontypes.DefaultGenesisState()
	bg.Params = o.Beacon
	gs[beacontypes.ModuleName] = cdc.MustMarshalJSON(bg)
	sg := streamtypes.DefaultGenesis()
	sg.Params = o.Stream
	gs[streamtypes.ModuleName] = cdc.MustMarshalJSON(sg)

	stateBytes, err := json.Marshal(gs)
	if err != nil {
		t.Fatal(err)
	}
	l.App.InitChain(abci.RequestInitChain{ChainId: ChainID, Time: start, ConsensusParams: simtestutil.DefaultConsensusParams, AppStateBytes: stateBytes})
	l.App.Commit()
	l.Height = l.App.LastBlockHeight()
	return l
}

func (l *Lab) Begin(dt time.Duration) abci.ResponseBeginBlock {
	l.Height++
	l.Time = l.Time.Add(dt)
	l.InBlock = true
	return l.App.BeginBlock(abci.RequestBeginBlock{Header: tmproto.Header{ChainID: ChainID, Height: l.Height, Time: l.Time, ProposerAddress: l.ValAddr}})
}

func (l *Lab) End() []byte {
	l.App.EndBlock(abci.RequestEndBlock{Height: l.Height})
	l.InBlock = false
	return l.App.Commit().Data
}

func (l *Lab) CheckCtx() sdk.Context {
	return l.App.NewContext(true, tmproto.Header{ChainID: ChainID, Height: l.App.LastBlockHeight(), Time: l.Time})
}

func (l *Lab) AccNumSeq(addr sdk.AccAddress) (uint64, uint64) {
	acc := l.App.AccountKeeper.GetAccount(l.deliverOrCheckCtx(), addr)
	if acc == nil {
		return 0, 0
	}
	return acc.GetAccountNumber(), acc.GetSequence()
}

func (l *Lab) deliverOrCheckCtx() sdk.Context {
	if !l.InBlock {
		return l.CheckCtx()
	}
	return l.App.NewContext(false, tmproto.Header{ChainID: ChainID, Height: l.Height, Time: l.Time})
}

func (l *Lab) BuildTx(t testing.TB, fee sdk.Coins, gas uint64, signers []Acct, granter sdk.AccAddress, msgs ...sdk.Msg) []byte {
	txCfg := l.App.TxConfig()
	b := txCfg.NewTxBuilder()
	if err := b.SetMsgs(msgs...); err != nil {
		t.Fatal(err)
	}
	b.SetFeeAmount(fee)
	b.SetGasLimit(gas)
	if granter != nil {
		b.SetFeeGranter(granter)
	}
	return l.sign(t, txCfg, b, signers)
}

func (l *Lab) sign(t testing.TB, txCfg client.TxConfig, b client.TxBuilder, signers []Acct) []byte {
	var sigs []signing.SignatureV2
	type ns struct{ n, s uint64 }
	var nss []ns
	for _, a := range signers {
		n, s := l.AccNumSeq(a.Addr)
		nss = append(nss, ns{n, s})
		sigs = append(sigs, signing.SignatureV2{PubKey: a.Priv.PubKey(), Data: &signing.SingleSignatureData{SignMode: txCfg.SignModeHandler().DefaultMode()}, Sequence: s})
	}
	if err := b.SetSignatures(sigs...); err != nil {
		t.Fatal(err)
	}
	sigs = nil
	for i, a := range signers {
		sd := authsigning.SignerData{ChainID: ChainID, AccountNumber: nss[i].n, Sequence: nss[i].s, PubKey: a.Priv.PubKey(), Address: a.Addr.String()}
		bz, err := txCfg.SignModeHandler().GetSignBytes(txCfg.SignModeHandler().DefaultMode(), sd, b.GetTx())
		if err != nil {
			t.Fatal(err)
		}
		sig, err := a.Priv.Sign(bz)
		if err != nil {
			t.Fatal(err)
		}
		sigs = append(sigs, signing.SignatureV2{PubKey: a.Priv.PubKey(), Data: &signing.SingleSignatureData{SignMode: txCfg.SignModeHandler().DefaultMode(), Signature: sig}, Sequence: nss[i].s})
	}
	if err := b.SetSignatures(sigs...); err != nil {
		t.Fatal(err)
	}
	bz, err := txCfg.TxEncoder()(b.GetTx())
	if err != nil {
		t.Fatal(err)
	}
	return bz
}

func (l *Lab) Deliver(bz []byte) abci.ResponseDeliverTx {
	return l.App.DeliverTx(abci.RequestDeliverTx{Tx: bz})
}
func (l *Lab) Check(bz []byte) abci.ResponseCheckTx {
	return l.App.CheckTx(abci.RequestCheckTx{Tx: bz, Type: abci.CheckTxType_New})
}

func nund(n int64) sdk.Coins { return sdk.NewCoins(sdk.NewInt64Coin(Denom, n)) }

func defaultOpts(l []Acct) GenOpts {
	_ = l
	return GenOpts{
		NAccts: 6,
		Ent:    enttypes.Params{EntSigners: newAcct(0).Addr.String() + "," + newAcct(1).Addr.String(), Denom: Denom, MinAccepts: 1, DecisionTimeLimit: 1000},
		Wrk:    wrkchaintypes.NewParams(1000, 10, 5, Denom, 3, 10),
		Beacon: beacontypes.NewParams(1000, 10, 5, Denom, 3, 10),
		Stream: streamtypes.Params{ValidatorFee: sdk.NewDecWithPrec(1, 2)},
	}
}
