package spike

import (
	"fmt"
	"testing"
	"time"

	"cosmossdk.io/math"
	dbm "github.com/cometbft/cometbft-db"
	sdk "github.com/cosmos/cosmos-sdk/types"
	enttypes "github.com/unification-com/mainchain/x/enterprise/types"
	wrkchaintypes "github.com/unification-com/mainchain/x/wrkchain/types"
)

func TestExtraDenom2(t *testing.T) {
	o := defaultOpts(nil)
	o.ExtraDenom = "foo"
	l := NewLab(t, dbm.NewMemDB(), o)
	a := l.Accts
	l.Begin(time.Second)
	l.End()
	reg := wrkchaintypes.NewMsgRegisterWrkChain("mon", "gh", "name", "geth", a[2].Addr)
	bz := l.BuildTx(t, nund(1).Add(sdk.NewInt64Coin("foo", 1)), 200000, []Acct{a[2]}, nil, reg)
	c := l.Check(bz)
	fmt.Println("C06 low fee + extra denom (no locked) check code:", c.Code, c.Log)
	l.Begin(time.Second)
	r := l.Deliver(bz)
	fmt.Println("deliver:", r.Code)
	l.End()
}

func TestHugePO(t *testing.T) {
	o := defaultOpts(nil)
	l := NewLab(t, dbm.NewMemDB(), o)
	a := l.Accts
	l.Begin(time.Second)
	l.End()
	huge := sdk.NewCoin(Denom, math.NewIntFromBigInt(new(bigInt).Lsh(one(), 255)))
	l.Begin(time.Second)
	l.Deliver(l.BuildTx(t, nund(0), 200000, []Acct{a[0]}, nil, enttypes.NewMsgWhitelistAddress(a[2].Addr, enttypes.WhitelistActionAdd, a[0].Addr)))
	r := l.Deliver(l.BuildTx(t, nund(0), 200000, []Acct{a[2]}, nil, enttypes.NewMsgUndPurchaseOrder(a[2].Addr, huge)))
	fmt.Println("raise huge", r.Code, r.Log[:min(len(r.Log), 120)])
	r = l.Deliver(l.BuildTx(t, nund(0), 200000, []Acct{a[2]}, nil, enttypes.NewMsgUndPurchaseOrder(a[2].Addr, huge)))
	fmt.Println("raise huge2", r.Code)
	l.Deliver(l.BuildTx(t, nund(0), 200000, []Acct{a[0]}, nil, enttypes.NewMsgProcessUndPurchaseOrder(1, enttypes.StatusAccepted, a[0].Addr)))
	l.Deliver(l.BuildTx(t, nund(0), 200000, []Acct{a[0]}, nil, enttypes.NewMsgProcessUndPurchaseOrder(2, enttypes.StatusAccepted, a[0].Addr)))
	l.End()
	func() {
		defer func() { fmt.Println("C14 huge PO recover:", recover()) }()
		l.Begin(time.Second)
		l.End()
		l.Begin(time.Second)
		l.End()
		fmt.Println("no panic; supply", l.App.BankKeeper.GetSupply(l.CheckCtx(), Denom))
		func() {
			defer func() { fmt.Println("C17 EnterpriseSupply recover:", recover()) }()
			fmt.Println(l.App.EnterpriseKeeper.GetEnterpriseSupplyIncludingLockedUnd(l.CheckCtx()))
		}()
	}()
}
