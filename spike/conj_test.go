package spike

import (
	"fmt"
	"testing"
	"time"

	"cosmossdk.io/math"
	dbm "github.com/cometbft/cometbft-db"
	sdk "github.com/cosmos/cosmos-sdk/types"
	"github.com/cosmos/cosmos-sdk/x/authz"
	undtypes "github.com/unification-com/mainchain/types"
	beacontypes "github.com/unification-com/mainchain/x/beacon/types"
	enttypes "github.com/unification-com/mainchain/x/enterprise/types"
	streamtypes "github.com/unification-com/mainchain/x/stream/types"
	wrkchaintypes "github.com/unification-com/mainchain/x/wrkchain/types"
)

func TestBasicFlow(t *testing.T) {
	o := defaultOpts(nil)
	o.ExtraDenom = "foo"
	o.Vesting = map[int]int64{4: 500_000_000_000_000}
	l := NewLab(t, dbm.NewMemDB(), o)
	a := l.Accts

	l.Begin(5 * time.Second)
	// whitelist acct2 and acct4 by signer 0
	r := l.Deliver(l.BuildTx(t, nund(0), 200000, []Acct{a[0]}, nil, enttypes.NewMsgWhitelistAddress(a[2].Addr, enttypes.WhitelistActionAdd, a[0].Addr)))
	fmt.Println("whitelist", r.Code, r.Log)
	r = l.Deliver(l.BuildTx(t, nund(0), 200000, []Acct{a[0]}, nil, enttypes.NewMsgWhitelistAddress(a[4].Addr, enttypes.WhitelistActionAdd, a[0].Addr)))
	fmt.Println("whitelist", r.Code, r.Log)
	r = l.Deliver(l.BuildTx(t, nund(0), 200000, []Acct{a[2]}, nil, enttypes.NewMsgUndPurchaseOrder(a[2].Addr, sdk.NewInt64Coin(Denom, 5000))))
	fmt.Println("raise", r.Code, r.Log)
	r = l.Deliver(l.BuildTx(t, nund(0), 200000, []Acct{a[4]}, nil, enttypes.NewMsgUndPurchaseOrder(a[4].Addr, sdk.NewInt64Coin(Denom, 7000))))
	fmt.Println("raise vest", r.Code, r.Log)
	r = l.Deliver(l.BuildTx(t, nund(0), 200000, []Acct{a[0]}, nil, enttypes.NewMsgProcessUndPurchaseOrder(1, enttypes.StatusAccepted, a[0].Addr)))
	fmt.Println("accept", r.Code, r.Log)
	r = l.Deliver(l.BuildTx(t, nund(0), 200000, []Acct{a[0]}, nil, enttypes.NewMsgProcessUndPurchaseOrder(2, enttypes.StatusAccepted, a[0].Addr)))
	fmt.Println("accept", r.Code, r.Log)
	fmt.Printf("hash %X\n", l.End())
	ctx := l.CheckCtx()
	sp4 := l.App.BankKeeper.SpendableCoins(ctx, a[4].Addr)
	fmt.Println("spendable vest before", sp4)
	l.Begin(5 * time.Second)
	l.End()
	l.Begin(5 * time.Second)
	l.End()
	ctx = l.CheckCtx()
	fmt.Println("locked2", l.App.EnterpriseKeeper.GetLockedUndForAccount(ctx, a[2].Addr), "total", l.App.EnterpriseKeeper.GetTotalLockedUnd(ctx))
	fmt.Println("spendable vest after", l.App.BankKeeper.SpendableCoins(ctx, a[4].Addr), "C05 vesting conjecture: increased =", !l.App.BankKeeper.SpendableCoins(ctx, a[4].Addr).IsEqual(sp4))

	// C06: extra denom masks low fee
	l.Begin(5 * time.Second)
	reg := wrkchaintypes.NewMsgRegisterWrkChain("mon", "gh", "name", "geth", a[2].Addr)
	c := l.Check(l.BuildTx(t, nund(1000), 200000, []Acct{a[2]}, nil, reg))
	fmt.Println("C06 exact fee check:", c.Code, c.Log)
	c = l.Check(l.BuildTx(t, nund(1), 200000, []Acct{a[2]}, nil, reg))
	fmt.Println("C06 low fee check:", c.Code)
	c = l.Check(l.BuildTx(t, nund(1).Add(sdk.NewInt64Coin("foo", 1)), 200000, []Acct{a[2]}, nil, reg))
	fmt.Println("C06 low fee + extra denom check (conjecture admitted=0):", c.Code, c.Log)
	// mixed
	rec := wrkchaintypes.NewMsgRegisterWrkChain("mon2", "gh", "name", "geth", a[3].Addr)
	brec := beacontypes.NewMsgRegisterBeacon("bmon", "bname", a[3].Addr)
	c = l.Check(l.BuildTx(t, nund(1000), 300000, []Acct{a[3]}, nil, rec, brec))
	fmt.Println("C06 mixed w+b fee=1000 (should need 2000) code:", c.Code, c.Log)
	// authz nesting: a3 grants a5 generic auth for register wrkchain
	exp := l.Time.Add(time.Hour)
	g, _ := authz.NewMsgGrant(a[3].Addr, a[5].Addr, authz.NewGenericAuthorization(sdk.MsgTypeURL(&wrkchaintypes.MsgRegisterWrkChain{})), &exp)
	r = l.Deliver(l.BuildTx(t, nund(0), 200000, []Acct{a[3]}, nil, g))
	fmt.Println("grant", r.Code, r.Log)
	g2, _ := authz.NewMsgGrant(a[3].Addr, a[5].Addr, authz.NewGenericAuthorization(sdk.MsgTypeURL(&wrkchaintypes.MsgPurchaseWrkChainStateStorage{})), &exp)
	r = l.Deliver(l.BuildTx(t, nund(0), 200000, []Acct{a[3]}, nil, g2))
	fmt.Println("grant2", r.Code, r.Log)
	l.End()
	l.Begin(5 * time.Second)
	ex := authz.NewMsgExec(a[5].Addr, []sdk.Msg{rec})
	bz := l.BuildTx(t, nund(0), 300000, []Acct{a[5]}, nil, &ex)
	c = l.Check(bz)
	fmt.Println("C06 nested exec zero fee check code:", c.Code, c.Log)
	r = l.Deliver(bz)
	fmt.Println("nested exec deliver:", r.Code, r.Log)
	// C08 overflow via nested purchase
	pur := wrkchaintypes.NewMsgPurchaseWrkChainStateStorage(1, ^uint64(0)-1, a[3].Addr) // 3 + (2^64-2) = 1
	ex2 := authz.NewMsgExec(a[5].Addr, []sdk.Msg{pur})
	r = l.Deliver(l.BuildTx(t, nund(0), 300000, []Acct{a[5]}, nil, &ex2))
	fmt.Println("nested overflow purchase deliver:", r.Code, r.Log)
	l.End()
	ctx = l.CheckCtx()
	lim, _ := l.App.WrkchainKeeper.GetWrkChainStorageLimit(ctx, 1)
	fmt.Println("C08 limit after overflow purchase (was 3):", lim.InStateLimit)
}

func TestStreamArith(t *testing.T) {
	// C12: fee truncate panic
	func() {
		defer func() { fmt.Println("C12 CalculateValidatorFee recover:", recover()) }()
		amt, _ := math.NewIntFromString("1000000000000000000000") // 1e21
		streamtypes.CalculateValidatorFee(sdk.NewDecWithPrec(1, 2), sdk.NewCoin("atto", amt))
	}()
	func() {
		defer func() { fmt.Println("C12 CalculateDuration recover:", recover()) }()
		amt, _ := math.NewIntFromString("10000000000000000000") // 1e19
		fmt.Println("dur", streamtypes.CalculateDuration(sdk.NewCoin("atto", amt), 1))
	}()
	// C11 overflow in claim
	now := time.Unix(1700000000, 0)
	dep := sdk.NewCoin("atto", math.NewIntFromUint64(1<<62).MulRaw(100))
	c, rem := streamtypes.CalculateAmountToClaim(now.Add(4*time.Second), now.Add(100*time.Second), now, dep, 1<<62)
	fmt.Println("C11 claim after 4s at 2^62/s (expect 2^64):", c, rem)
	// duration overflow
	d := int64(10_000_000_000) // > 292y in seconds
	fmt.Println("C11 zero time for 1e10 s:", now.Add(time.Second*time.Duration(d)))
}

func TestConvert(t *testing.T) {
	for _, s := range []string{"1", "0.000000001", "123456789.123456789", "120000000.000000001", "4.35", "0.3", "99999999999.999999999"} {
		r, err := undtypes.ConvertUndDenomination(s, "fund", "nund")
		fmt.Println("C19", s, "fund ->", r, err)
	}
	for _, s := range []string{"1", "123456789123456789", "120000000000000001", "9007199254740993"} {
		r, err := undtypes.ConvertUndDenomination(s, "nund", "fund")
		fmt.Println("C19", s, "nund ->", r, err)
	}
}

func TestEntParams(t *testing.T) {
	p := enttypes.Params{EntSigners: newAcct(0).Addr.String(), Denom: Denom, MinAccepts: 1 << 63, DecisionTimeLimit: 10}
	fmt.Println("C16 MinAccepts=2^63 validate err:", p.Validate())
}
