package spike

import (
	tmproto "github.com/cometbft/cometbft/proto/tendermint/types"
	"encoding/json"
	"fmt"
	"testing"
	"time"

	dbm "github.com/cometbft/cometbft-db"
	abci "github.com/cometbft/cometbft/abci/types"
	"github.com/cometbft/cometbft/libs/log"
	"github.com/cosmos/cosmos-sdk/baseapp"
	"github.com/cosmos/cosmos-sdk/client/flags"
	simtestutil "github.com/cosmos/cosmos-sdk/testutil/sims"
	sdk "github.com/cosmos/cosmos-sdk/types"
	"github.com/unification-com/mainchain/app"
	beacontypes "github.com/unification-com/mainchain/x/beacon/types"
	enttypes "github.com/unification-com/mainchain/x/enterprise/types"
	streamtypes "github.com/unification-com/mainchain/x/stream/types"
	wrkchaintypes "github.com/unification-com/mainchain/x/wrkchain/types"
)

func TestExportImport(t *testing.T) {
	o := defaultOpts(nil)
	o.Vesting = map[int]int64{5: 1000}
	l := NewLab(t, dbm.NewMemDB(), o)
	a := l.Accts
	l.Begin(time.Second)
	l.End()
	l.Begin(time.Second)
	l.Deliver(l.BuildTx(t, nund(0), 200000, []Acct{a[0]}, nil, enttypes.NewMsgWhitelistAddress(a[2].Addr, enttypes.WhitelistActionAdd, a[0].Addr)))
	l.Deliver(l.BuildTx(t, nund(0), 200000, []Acct{a[2]}, nil, enttypes.NewMsgUndPurchaseOrder(a[2].Addr, sdk.NewInt64Coin(Denom, 5000))))
	l.Deliver(l.BuildTx(t, nund(0), 200000, []Acct{a[2]}, nil, enttypes.NewMsgUndPurchaseOrder(a[2].Addr, sdk.NewInt64Coin(Denom, 700))))
	l.Deliver(l.BuildTx(t, nund(0), 200000, []Acct{a[2]}, nil, enttypes.NewMsgUndPurchaseOrder(a[2].Addr, sdk.NewInt64Coin(Denom, 900))))
	l.Deliver(l.BuildTx(t, nund(0), 200000, []Acct{a[0]}, nil, enttypes.NewMsgProcessUndPurchaseOrder(1, enttypes.StatusAccepted, a[0].Addr)))
	l.Deliver(l.BuildTx(t, nund(1000), 200000, []Acct{a[3]}, nil, wrkchaintypes.NewMsgRegisterWrkChain("m", "g", "n", "t", a[3].Addr)))
	l.Deliver(l.BuildTx(t, nund(1000), 200000, []Acct{a[3]}, nil, beacontypes.NewMsgRegisterBeacon("bm", "bn", a[3].Addr)))
	l.Deliver(l.BuildTx(t, nund(0), 300000, []Acct{a[3]}, nil, streamtypes.NewMsgCreateStream(sdk.NewInt64Coin(Denom, 100000), 10, a[4].Addr, a[3].Addr)))
	l.End()
	for i := 0; i < 6; i++ {
		l.Begin(time.Second)
		l.Deliver(l.BuildTx(t, nund(10), 200000, []Acct{a[3]}, nil, wrkchaintypes.NewMsgRecordWrkChainBlock(1, uint64(i+1)*3, "h", "p", "", "", "", a[3].Addr)))
		l.Deliver(l.BuildTx(t, nund(10), 200000, []Acct{a[3]}, nil, beacontypes.NewMsgRecordBeaconTimestamp(1, "hh", uint64(100+i), a[3].Addr)))
		if i == 2 {
			// fee from locked: a2 has locked 5000 now? use a2 registering wrkchain
			r := l.Deliver(l.BuildTx(t, nund(1000), 200000, []Acct{a[2]}, nil, wrkchaintypes.NewMsgRegisterWrkChain("m2", "g", "n", "t", a[2].Addr)))
			fmt.Println("a2 register with locked:", r.Code)
			l.Deliver(l.BuildTx(t, nund(0), 200000, []Acct{a[0]}, nil, enttypes.NewMsgProcessUndPurchaseOrder(2, enttypes.StatusAccepted, a[0].Addr)))
		}
		l.End()
	}
	// now PO2 accepted decision made in i==2 block, tallied next; leave PO3 raised. accept PO... export while PO in accepted state:
	exp, err := l.App.ExportAppStateAndValidators(false, nil, nil)
	if err != nil {
		t.Fatal(err)
	}
	var gs map[string]json.RawMessage
	json.Unmarshal(exp.AppState, &gs)
	fmt.Println("ent export:", string(gs["enterprise"])[:400])
	// import
	app2 := app.NewApp(log.NewNopLogger(), dbm.NewMemDB(), nil, true, simtestutil.AppOptionsMap{flags.FlagHome: t.TempDir(), "x-crisis-skip-assert-invariants": true}, baseapp.SetChainID(ChainID))
	func() {
		defer func() {
			if r := recover(); r != nil {
				fmt.Println("IMPORT PANIC:", r)
			}
		}()
		app2.InitChain(abci.RequestInitChain{ChainId: ChainID, Time: l.Time, ConsensusParams: exp.ConsensusParams, AppStateBytes: exp.AppState, InitialHeight: exp.Height})
		app2.Commit()
		func() {
			defer func() { fmt.Println("invariants after import recover:", recover()) }()
			app2.CrisisKeeper.AssertInvariants(app2.NewContext(true, tmprotoHeader(exp.Height)))
		}()
		exp2, err := app2.ExportAppStateAndValidators(false, nil, nil)
		fmt.Println("export2 err", err)
		var gs2 map[string]json.RawMessage
		json.Unmarshal(exp2.AppState, &gs2)
		for _, m := range []string{"enterprise", "wrkchain", "beacon", "stream", "bank", "auth"} {
			fmt.Println(m, "equal:", string(gs[m]) == string(gs2[m]))
		}
	}()
}

func tmprotoHeader(h int64) tmproto.Header { return tmproto.Header{ChainID: ChainID, Height: h} }
