package spike

import (
	"fmt"
	"testing"
	"time"

	dbm "github.com/cometbft/cometbft-db"
	sdk "github.com/cosmos/cosmos-sdk/types"
	authtypes "github.com/cosmos/cosmos-sdk/x/auth/types"
	govtypes "github.com/cosmos/cosmos-sdk/x/gov/types"
	govv1 "github.com/cosmos/cosmos-sdk/x/gov/types/v1"
	enttypes "github.com/unification-com/mainchain/x/enterprise/types"
	wrkchaintypes "github.com/unification-com/mainchain/x/wrkchain/types"
)

func (l *Lab) GovExec(t testing.TB, msgs ...sdk.Msg) {
	a := l.Accts
	sp, err := govv1.NewMsgSubmitProposal(msgs, nund(1000), a[0].Addr.String(), "", "t", "s")
	if err != nil {
		t.Fatal(err)
	}
	l.Begin(time.Second)
	r := l.Deliver(l.BuildTx(t, nund(0), 500000, []Acct{a[0]}, nil, sp))
	if r.Code != 0 {
		fmt.Println("submit failed", r.Log)
		l.End()
		return
	}
	var pid uint64
	for _, e := range r.Events {
		if e.Type == "submit_proposal" {
			for _, at := range e.Attributes {
				if at.Key == "proposal_id" {
					fmt.Sscan(at.Value, &pid)
				}
			}
		}
	}
	r = l.Deliver(l.BuildTx(t, nund(0), 500000, []Acct{a[0]}, nil, govv1.NewMsgVote(a[0].Addr, pid, govv1.OptionYes, "")))
	if r.Code != 0 {
		fmt.Println("vote failed", r.Log)
	}
	l.End()
	l.Begin(11 * time.Second)
	l.End()
	p, _ := l.App.GovKeeper.GetProposal(l.CheckCtx(), pid)
	fmt.Println("proposal", pid, p.Status, p.FinalTallyResult)
}

func TestDenomChangeHalts(t *testing.T) {
	o := defaultOpts(nil)
	l := NewLab(t, dbm.NewMemDB(), o)
	a := l.Accts
	auth := authtypes.NewModuleAddress(govtypes.ModuleName).String()
	l.Begin(5 * time.Second)
	l.Deliver(l.BuildTx(t, nund(0), 200000, []Acct{a[0]}, nil, enttypes.NewMsgWhitelistAddress(a[2].Addr, enttypes.WhitelistActionAdd, a[0].Addr)))
	l.Deliver(l.BuildTx(t, nund(0), 200000, []Acct{a[2]}, nil, enttypes.NewMsgUndPurchaseOrder(a[2].Addr, sdk.NewInt64Coin(Denom, 5000))))
	l.End()
	// lower wrkchain max below default then query storage
	l.Begin(time.Second)
	r := l.Deliver(l.BuildTx(t, nund(1000), 200000, []Acct{a[3]}, nil, wrkchaintypes.NewMsgRegisterWrkChain("m", "g", "n", "t", a[3].Addr)))
	fmt.Println("reg", r.Code)
	r = l.Deliver(l.BuildTx(t, nund(25), 200000, []Acct{a[3]}, nil, wrkchaintypes.NewMsgPurchaseWrkChainStateStorage(1, 5, a[3].Addr)))
	fmt.Println("purchase", r.Code, r.Log)
	l.End()
	wp := o.Wrk
	wp.MaxStorageLimit = 4
	wp.DefaultStorageLimit = 2
	l.GovExec(t, &wrkchaintypes.MsgUpdateParams{Authority: auth, Params: wp})
	res, err := l.App.WrkchainKeeper.WrkChainStorage(sdk.WrapSDKContext(l.CheckCtx()), &wrkchaintypes.QueryWrkChainStorageRequest{WrkchainId: 1})
	fmt.Println("C08 storage query after max lowered:", res, err)

	ep := o.Ent
	ep.Denom = "other"
	l.GovExec(t, &enttypes.MsgUpdateParams{Authority: auth, Params: ep})
	fmt.Println("ent params now", l.App.EnterpriseKeeper.GetParams(l.CheckCtx()))
	l.Begin(time.Second)
	r = l.Deliver(l.BuildTx(t, nund(0), 200000, []Acct{a[0]}, nil, enttypes.NewMsgProcessUndPurchaseOrder(1, enttypes.StatusAccepted, a[0].Addr)))
	fmt.Println("accept", r.Code, r.Log)
	l.End()
	func() {
		defer func() { fmt.Println("C14 BeginBlock recover:", recover()) }()
		l.Begin(time.Second) // tally -> accepted
		l.End()
		l.Begin(time.Second) // mint
		l.End()
		fmt.Println("no panic")
	}()
}
