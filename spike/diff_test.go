package spike

import (
	"fmt"
	"sort"
	"testing"
	"time"

	dbm "github.com/cometbft/cometbft-db"
	sdk "github.com/cosmos/cosmos-sdk/types"
	enttypes "github.com/unification-com/mainchain/x/enterprise/types"
	wrkchaintypes "github.com/unification-com/mainchain/x/wrkchain/types"
)

var storeNames = []string{"acc", "bank", "staking", "distribution", "slashing", "gov", "params", "feegrant", "authz", "group", "enterprise", "beacon", "wrkchain", "stream", "crisis", "upgrade", "evidence", "capability", "ibc", "transfer", "consensus"}

func (l *Lab) snap() map[string]string {
	ctx := l.deliverOrCheckCtx()
	out := map[string]string{}
	for _, n := range storeNames {
		k := l.App.GetKey(n)
		if k == nil {
			continue
		}
		it := ctx.KVStore(k).Iterator(nil, nil)
		for ; it.Valid(); it.Next() {
			out[n+"/"+fmt.Sprintf("%X", it.Key())] = fmt.Sprintf("%X", it.Value())
		}
		it.Close()
	}
	return out
}

func diff(a, b map[string]string) []string {
	var d []string
	for k, v := range a {
		if b[k] != v {
			d = append(d, k)
		}
	}
	for k := range b {
		if _, ok := a[k]; !ok {
			d = append(d, k)
		}
	}
	sort.Strings(d)
	return d
}

func TestFailedTxDiff(t *testing.T) {
	o := defaultOpts(nil)
	l := NewLab(t, dbm.NewMemDB(), o)
	a := l.Accts
	l.Begin(time.Second)
	l.End()
	l.Begin(time.Second)
	l.Deliver(l.BuildTx(t, nund(0), 200000, []Acct{a[0]}, nil, enttypes.NewMsgWhitelistAddress(a[2].Addr, enttypes.WhitelistActionAdd, a[0].Addr)))
	l.Deliver(l.BuildTx(t, nund(0), 200000, []Acct{a[2]}, nil, enttypes.NewMsgUndPurchaseOrder(a[2].Addr, sdk.NewInt64Coin(Denom, 5000))))
	l.Deliver(l.BuildTx(t, nund(0), 200000, []Acct{a[0]}, nil, enttypes.NewMsgProcessUndPurchaseOrder(1, enttypes.StatusAccepted, a[0].Addr)))
	l.End()
	l.Begin(time.Second)
	l.End()
	l.Begin(time.Second)
	bb := l.App.BeginBlock
	_ = bb
	l.End()
	l.Begin(time.Second)
	s0 := l.snap()
	// msg-failing tx by locked payer a2: record to non-existent wrkchain, fee 10
	r := l.Deliver(l.BuildTx(t, nund(10), 200000, []Acct{a[2]}, nil, wrkchaintypes.NewMsgRecordWrkChainBlock(9, 1, "h", "p", "", "", "", a[2].Addr)))
	s1 := l.snap()
	fmt.Println("msg-fail code", r.Code, "diff keys:")
	for _, k := range diff(s0, s1) {
		fmt.Println("  ", k[:min(len(k), 90)])
	}
	// ante-failing tx: wrong sequence (reuse bytes)
	bz := l.BuildTx(t, nund(10), 200000, []Acct{a[2]}, nil, wrkchaintypes.NewMsgRecordWrkChainBlock(9, 1, "h", "p", "", "", "", a[2].Addr))
	l.Deliver(bz)
	s2 := l.snap()
	r = l.Deliver(bz) // replay -> sequence mismatch
	s3 := l.snap()
	fmt.Println("ante-fail code", r.Code, "diff keys:", diff(s2, s3))
	// begin block events
	l.End()
	rb := l.Begin(time.Second)
	for _, e := range rb.Events {
		if e.Type == "coinbase" || e.Type == "burn" || e.Type == "und_purchase_complete" {
			fmt.Println("BB event", e.String()[:min(200, len(e.String()))])
		}
	}
	l.End()
}
